#!/usr/bin/env python3
"""Markdown table of what the last run of every check covered (from evidence/*.json) - pasted into DESIGN.md II.1."""
import json, glob, os
V = os.path.dirname(os.path.dirname(os.path.abspath(__file__)))
print("| id | tier | cases run on the implementation | traces judged by TLC | model states (instances) | classes | s | suites |")
print("|---|---|---|---|---|---|---|---|")
for f in sorted(glob.glob(os.path.join(V, "evidence", "C*.json"))):
    e = json.load(open(f)); c = e["coverage"]
    models = ", ".join("%s %s" % (k, v.get("distinct_states", "thm")) for k, v in c["models"].items())
    suites = ", ".join("%s %d" % (k, v.get("cases", v.get("tlc_exported_statements", v.get("tlc_exported_programs", 0)))) for k, v in c["suites"].items())
    print("| %s | %s | %d | %d | %d (%s) | %d | %.0f | %s |" % (e["property_id"], e["tier"], c["evaluations"], c["traces_validated_against_impl"], c["states"], models, c["distinct_nontrivial"], e["wall_s"], suites))
