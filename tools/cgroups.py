#!/venv/bin/python
import json, collections, sys
items=json.load(open(sys.argv[1]))
g=collections.defaultdict(list)
for x in items:
    if x.get('known') and '--all' not in sys.argv: continue
    it=x['item']; c=it['class']; s=it['symptom']
    src=c.get('valsrc','')
    kind='expr-label' if 'label' in src and src.startswith('expr') else ('expr' if src.startswith('expr') else src)
    g[(it['clause'],c.get('form'),kind,s.get('dres'),s.get('why'),s.get('exc'))].append(x)
for k,v in sorted(g.items(), key=lambda kv:str(kv[0])):
    x=v[0]; ln=x['lines'][x['k']-1].strip() if x.get('k') else (x['lines'] or [''])[0].strip()
    print(len(v),k,'| e.g.',repr(ln),'got',' '.join('%02X'%b for b in (x['item']['symptom'].get('got') or []) if isinstance(b,int) and b>=0))
print(len(g),'groups',sum(len(v) for v in g.values()),'items')
