#!/venv/bin/python
"""usage: tools/selftest.py
Negative controls for the TLC judges (the Tr_* modules): for every judge one execution recorded from the real code is accepted as
recorded, then ONE recorded field is corrupted (a byte of an encoding, a listing address, a symbol value, a sizing decision, a pass
address, a tape checksum, a FAT link, a directory length, a listed file, an assembled image, an INCLUDE output ...) and the judge
must reject it with the expected clause.  A judge that has become vacuous (accepts the corrupted trace) or over-strict (rejects the
recorded one) fails this test.  Exit 0 = every control behaved; exit 1 = a control failed (machinery defect, not a property violation)."""
import os, sys, json, copy, random
V = os.path.dirname(os.path.dirname(os.path.abspath(__file__)))
sys.path.insert(0, V)
os.environ["COCOASM_VERIF"] = "1"
os.environ.setdefault("VERIF_SCRATCH", os.path.join(V, "out"))
os.makedirs(os.path.join(V, "out"), exist_ok=True)
from harness import tlc, asmio, asmrun, asmcheck, containers as ct, hostrun, sessionrun
from harness.asmio import stmt, ex, num, sym
from harness.asmcheck import Case

FAILS = []


def expect(name, cond, detail=""):
    print("%-58s %s %s" % (name, "ok" if cond else "FAILED", "" if cond else detail))
    if not cond:
        FAILS.append(name)


def clauses(v):
    return sorted(set(it["clause"] for it in v["items"]))


def asm_controls():
    prog = [stmt("ORG", "org", expr=ex(num(0x0E00, "hex4"))), stmt("LDA", "imm", label="START", expr=ex(num(5))), stmt("LDX", "imm", expr=ex(sym("TAB"))),
            stmt("BNE", "rel", expr=ex(sym("START"))), stmt("LEAY", "pcr", expr=ex(sym("TAB"))), stmt("FDB", "fdb", label="TAB", vals=[ex(num(0x1234, "hex4"))]), stmt("RTS", label="E")]
    c = Case(prog)
    traces, extras = asmrun.run([(0, c.prog, c.lines)], hooks=True)
    t = dict(traces[0], focus=0)
    vs = [dict(copy.deepcopy(t), id=k) for k in range(7)]
    vs[1]["obs"][1]["bytes"][1] ^= 1                 # operand byte of LDA #5
    vs[2]["obs"][3]["bytes"][1] = (vs[2]["obs"][3]["bytes"][1] + 1) & 255   # branch displacement
    vs[3]["obs"][4]["addr"] += 1                      # listing address
    vs[4]["symtab"][0]["v"] += 1                      # symbol value
    vs[5]["image"][2] ^= 0x10                         # image byte
    vs[6]["obs"][4]["bytes"][-1] = (vs[6]["obs"][4]["bytes"][-1] + 1) & 255  # PCR displacement
    rej = dict(copy.deepcopy(t), id=7, outcome="translation", obs=[], image=[], symtab=[], diag_k=2, diag_named=True)     # a valid program reported as rejected
    vs.append(rej)
    verd, _ = tlc.bulk("Tr_Asm", vs, nproc=1)
    expect("Tr_Asm rejects a diagnostic for a valid program (accepted)", "accepted" in clauses(verd[7]), str(clauses(verd[7])))
    expect("Tr_Asm accepts the recorded assembly", clauses(verd[0]) == [], str(verd[0]["items"])[:200])
    for k, want in ((1, "enc"), (2, "enc"), (3, "placed"), (4, "symtab"), (5, "image"), (6, "enc")):
        expect("Tr_Asm rejects corruption %d with clause %s" % (k, want), want in clauses(verd[k]), str(clauses(verd[k])))
    # free text: an indexed encoding on a register the operand text never names (what the assembler emitted for LDA ,PCR before it was repaired)
    from harness.props import c12
    rc = c12.raw_case("LDA", "5,Y", "raw")
    rtr, _x = asmrun.run([(0, rc.prog, rc.lines)])
    r0 = dict(rtr[0], focus=3)
    r1 = copy.deepcopy(dict(r0, id=1))
    r1["prog"][2]["optcodes"] = [ord(ch) for ch in "5,PCR"]             # the same bytes (A6 25 = 5,Y) for a text that never mentions Y
    rv, _ = tlc.bulk("Tr_Asm", [r0, r1], nproc=1)
    expect("Tr_Asm accepts the recorded free-text statement", "names" not in clauses(rv[0]), str(clauses(rv[0])))
    expect("Tr_Asm rejects a base register the text never names (names)", "names" in clauses(rv[1]), str(clauses(rv[1])))
    # pass structure
    evs = []
    for e in extras[0]["hooks"]:
        if e["ev"] in ("Collected", "Translated", "SizeDecide", "Sweep", "Laid", "Fixed", "Backpatched"):
            e = dict(e)
            if isinstance(e.get("fixed"), list):
                e["fixedv"] = e.pop("fixed")
            evs.append(e)
    facts = {"n": len(prog), "mn": [s["mn"] for s in prog], "lab": [s["label"] for s in prog], "orgv": [s["expr"]["l"]["n"] if s["mn"] == "ORG" else -1 for s in prog]}
    base = {"id": 0, "p": facts, "events": evs, "accepted": True}
    ps = [dict(copy.deepcopy(base), id=k) for k in range(5)]
    laid = [i for i, e in enumerate(evs) if e["ev"] == "Laid"][0]
    ps[1]["events"][laid]["addrs"][3] += 1
    bp = [i for i, e in enumerate(evs) if e["ev"] == "Backpatched"][0]
    ps[2]["events"][bp]["symbols"][0][1] += 1
    fx = [i for i, e in enumerate(evs) if e["ev"] == "Fixed"][0]
    ps[3]["events"][fx]["lens"][1] += 1
    ps[4]["events"] = [e for e in ps[4]["events"] if e["ev"] != "Laid"]          # a hook removed
    verd, _ = tlc.bulk("Tr_Passes", ps, nproc=1)
    expect("Tr_Passes accepts the recorded pass events", verd[0]["ok"], str(verd[0]))
    for k, want in ((1, "lay"), (2, "backpatch"), (3, "fix-length"), (4, "order-fixed")):
        expect("Tr_Passes rejects corruption %d with %s" % (k, want), (not verd[k]["ok"]) and verd[k]["why"] == want, str(verd[k]))


def tape_controls():
    files = [ct.mkfile("HELLO", ct.content(random.Random(1), "rand", 300), 2, 0, 0x0E00, 0x0E10), ct.mkfile("B", [1, 2, 3], 0, 255)]
    rec = ct.tape_case((0, files))
    vs = [dict(copy.deepcopy(rec), id=k) for k in range(4)]
    buf = vs[1]["buffer"]
    i = [j for j in range(len(buf) - 1) if buf[j] == 0x55 and buf[j + 1] == 0x3C][1]
    vs[1]["buffer"][i + 4 + 10] ^= 1                                    # a payload byte of the first data block (checksum no longer matches)
    vs[2]["listed"]["files"][0]["data"][5] ^= 1                         # the tool's listing returns different data
    i0 = [j for j in range(len(buf) - 1) if buf[j] == 0x55 and buf[j + 1] == 0x3C][0]
    vs[3]["buffer"] = vs[3]["buffer"][:i0 + 4] + vs[3]["buffer"][i0 + 10:]     # six bytes of the name block cut out
    verd, _ = tlc.bulk("Tr_Tape", vs, nproc=1)
    expect("Tr_Tape accepts the recorded tape", verd[0]["failed"] == [], str(verd[0]["failed"]))
    expect("Tr_Tape rejects a flipped payload byte (wellformed)", "wellformed" in verd[1]["failed"], str(verd[1]["failed"]))
    expect("Tr_Tape rejects a different listing (roundtrip)", verd[2]["failed"] == ["roundtrip"], str(verd[2]["failed"]))
    expect("Tr_Tape rejects a damaged name block", "wellformed" in verd[3]["failed"] or "contents" in verd[3]["failed"], str(verd[3]["failed"]))


def disk_controls():
    rnd = random.Random(2)
    h = ct.disk_history((0, None, [ct.disk_file(rnd, "ONE", "ML", 3000), ct.disk_file(rnd, "TWO", "BAS", 100)]))
    hs = [dict(copy.deepcopy(h), id=k) for k in range(4)]

    snap = hs[1]["events"][0]["snap"]
    g0 = snap["grans"][0]["g"]
    snap["fat"][g0] = (snap["fat"][g0] + 1) & 0xFF                                           # the chain link / last-granule marker of the first file
    hs[2]["events"][1]["listed"]["files"] = hs[2]["events"][1]["listed"]["files"][:1]      # the tool's listing lost a file
    hs[3]["events"][0]["snap"]["grans"][0]["b"][7] ^= 1                                      # a data byte on the disk
    verd, _ = tlc.bulk("Tr_Disk", hs, nproc=1, heap="4g")
    fl = lambda v: sorted(set(it["clause"] for items in v["verdicts"] for it in items))
    expect("Tr_Disk accepts the recorded history", fl(verd[0]) == [], str(fl(verd[0])))
    expect("Tr_Disk rejects a changed FAT entry", fl(verd[1]) != [], str(fl(verd[1])))
    expect("Tr_Disk rejects a listing that lost a file", fl(verd[2]) != [], str(fl(verd[2])))
    expect("Tr_Disk rejects a changed data byte", fl(verd[3]) != [], str(fl(verd[3])))


def host_controls():
    lst = {"tool": "util", "sw": "list", "app": False, "named": True, "new": [], "srcn": 0}
    h = {"init": {"kind": "cas", "big": False, "files": [101, 102]}, "cmds": [lst, {"tool": "asm", "sw": "cas", "app": True, "named": True, "new": [9], "srcn": 0}, lst,
                                                                               {"tool": "asm", "sw": "dsk", "app": False, "named": True, "new": [9], "srcn": 0}]}
    r = hostrun.replay((0, h))
    rs = [dict(copy.deepcopy(r), id=k) for k in range(5)]
    rs[1]["events"][2]["listed"][1]["len"] += 1                                  # --list printed a wrong length
    rs[2]["events"][1]["post"]["tape"][200] ^= 1                                 # a byte of what the append wrote
    rs[3]["events"][3]["same"] = False                                           # the refused save changed the file
    rs[3]["events"][3]["post"] = dict(rs[3]["events"][1]["post"])
    rs[3]["events"][3]["post"]["tape"] = rs[3]["events"][3]["post"]["tape"][:-40]
    rs[4]["events"][0]["same"] = False                                           # --list modified the image
    rs[4]["events"][0]["post"]["len"] = 5
    verd, _ = tlc.bulk("Tr_Host", rs, nproc=1, heap="4g")
    fl = lambda v: [s["failed"] for s in v["steps"]]
    expect("Tr_Host accepts the recorded history", all(x == [] for x in fl(verd[0])), str(fl(verd[0])))
    expect("Tr_Host rejects a wrong --list output (listed)", "listed" in fl(verd[1])[2], str(fl(verd[1])))
    expect("Tr_Host rejects a corrupted appended tape", fl(verd[2])[1] != [], str(fl(verd[2])))
    expect("Tr_Host rejects a modified target on a refused save", fl(verd[3])[3] != [], str(fl(verd[3])))
    expect("Tr_Host rejects --list changing the image (readonly)", "readonly" in fl(verd[4])[0], str(fl(verd[4])))


def host_two_switch_controls():
    """one invocation naming the target under two switches: the recorded run is accepted; a second save that WROTE over what the first had created is rejected"""
    h = {"init": {"kind": "absent", "big": False, "files": []}, "cmds": [{"tool": "asm", "sw": "bin", "sw2": "cas", "app": False, "named": True, "new": [9], "srcn": 0}]}
    r = hostrun.replay((0, h))
    rs = [dict(copy.deepcopy(r), id=k) for k in range(3)]
    rs[1]["events"][0]["hooks"].append({"ev": "Save", "exists": True, "sniffed": "", "wrote": True})      # the second save wrote as well
    rs[2]["events"][0]["post"]["raw"] = rs[2]["events"][0]["post"]["raw"][:-1]    # what is at the path is neither of the two images
    verd, _ = tlc.bulk("Tr_Host", rs, nproc=1, heap="4g")
    fl = lambda v: [s["failed"] for s in v["steps"]]
    expect("Tr_Host accepts --to_bin P --to_cas P as recorded", fl(verd[0]) == [[]], str(fl(verd[0])))
    expect("Tr_Host rejects a second save that wrote over the first (allowed)", "allowed" in fl(verd[1])[0], str(fl(verd[1])))
    expect("Tr_Host rejects a damaged image after two saves (allowed)", "allowed" in fl(verd[2])[0], str(fl(verd[2])))


def include_controls():
    from harness.props import c19
    os.environ["VERIF_SCRATCH"] = tlc.OUT
    S = lambda v: {"k": "s", "v": v, "inc": ""}
    I = lambda n: {"k": "i", "v": 0, "inc": n}
    ok = c19.model_one((0, {"a": [S(1), I("b")], "b": [I("c"), S(2)], "c": []}))
    cyc = c19.model_one((3, {"a": [I("b")], "b": [I("a")], "c": []}))
    rs = [dict(copy.deepcopy(ok), id=0), dict(copy.deepcopy(ok), id=1), dict(copy.deepcopy(ok), id=2), cyc, dict(copy.deepcopy(cyc), id=4)]
    rs[1]["bin"] = list(reversed(rs[1]["bin"]))                                  # the statements came out in another order
    rs[2]["files"]["c"] = [S(2)]                                                 # the included file held a statement that is not in the image
    rs[4]["exit"], rs[4]["hasbin"], rs[4]["bin"] = 0, True, []                   # a cycle accepted
    verd, _ = tlc.bulk("Tr_Include", [{k: v for k, v in x.items() if k != "stdout"} for x in rs], nproc=1)
    expect("Tr_Include accepts the recorded expansion", verd[0]["failed"] == [], str(verd[0]))
    expect("Tr_Include rejects a reordered image (spliced)", "spliced" in verd[1]["failed"], str(verd[1]))
    expect("Tr_Include rejects a statement of an included file missing from the image", "spliced" in verd[2]["failed"], str(verd[2]))
    expect("Tr_Include accepts the diagnostic for a cycle", verd[3]["failed"] == [], str(verd[3]))
    expect("Tr_Include rejects an accepted cycle (rejected)", "rejected" in verd[4]["failed"], str(verd[4]))


def session_controls():
    pool = [[" ORG $0E00\n", "S LDA #1\n", " RTS \n"], [" LDA #300\n"]]
    ev = sessionrun.run_history(pool, [1, 2, 1], "warm")
    ts = [{"id": 0, "events": copy.deepcopy(ev)}, {"id": 1, "events": copy.deepcopy(ev)}, {"id": 2, "events": copy.deepcopy(ev)}]
    ts[1]["events"][2]["out"]["image"][1] ^= 1
    ts[2]["events"][1]["intact"] = False
    verd, _ = tlc.bulk("Tr_Session", ts, nproc=1)
    expect("Tr_Session accepts the recorded session", verd[0]["ok"], str(verd[0]))
    expect("Tr_Session rejects a different second output (differs)", not verd[1]["ok"] and verd[1]["why"] == "differs", str(verd[1]))
    expect("Tr_Session rejects a modified input list", not verd[2]["ok"] and verd[2]["why"] == "input-modified", str(verd[2]))


def pair_controls():
    from harness.props import c18
    ts = []
    for seed in range(1, 200):
        t = c18.make_pair((0, seed))          # k % 3 == 0: a random transform (shift / rename / white space / comment / case / suffix)
        if t and t["a"]["outcome"] == "ok" and t["kind"] in ("shift", "same") and len(t["a"]["bytes"]) > 3:
            ts.append(t)
        if len(ts) == 2:
            break
    recs = []
    for k, t in enumerate(ts):
        r = {kk: v for kk, v in t.items() if kk not in ("linesA", "linesB", "tkind")}
        recs.append(dict(copy.deepcopy(r), id=2 * k))
        bad = dict(copy.deepcopy(r), id=2 * k + 1)
        j = [i for i, b in enumerate(bad["b"]["bytes"]) if b][0]
        bad["b"]["bytes"][j][0] ^= 1                                            # an opcode byte of the transformed program
        recs.append(bad)
    verd, _ = tlc.bulk("Tr_Pair", recs, nproc=1)
    for k in range(len(ts)):
        expect("Tr_Pair accepts the recorded pair (%s)" % ts[k]["tkind"], verd[2 * k]["ok"], str(verd[2 * k]))
        expect("Tr_Pair rejects a changed byte in the transformed program", not verd[2 * k + 1]["ok"], str(verd[2 * k + 1]))


def c11_controls():
    from harness.props import c11
    cfg = {"name": "HELLO", "src": "nam", "sw": ["bin", "cas", "dsk"], "org": 0x0E00, "size": 300, "endop": True, "marker": 1}
    t = c11.one((0, cfg))
    rs = [dict(copy.deepcopy(t), id=k) for k in range(4)]
    rs[1]["bin"]["raw"][5] ^= 1
    i = [j for j in range(len(rs[2]["cas"]["tape"]) - 1) if rs[2]["cas"]["tape"][j] == 0x55 and rs[2]["cas"]["tape"][j + 1] == 0x3C][0]
    rs[2]["cas"]["tape"][i + 4] ^= 0x01                                         # first character of the file name in the name block
    rs[3]["origin"] += 1                                                        # the program's origin is not the load address stored
    verd, _ = tlc.bulk("Tr_C11", rs, nproc=1, heap="4g")
    expect("Tr_C11 accepts the recorded run", verd[0]["failed"] == [], str(verd[0]["failed"]))
    for k in (1, 2, 3):
        expect("Tr_C11 rejects corruption %d" % k, verd[k]["failed"] != [], str(verd[k]["failed"]))


if __name__ == "__main__":
    for f in (asm_controls, tape_controls, disk_controls, host_controls, host_two_switch_controls, include_controls, session_controls, pair_controls, c11_controls):
        try:
            f()
        except Exception as e:
            import traceback
            traceback.print_exc()
            FAILS.append(f.__name__ + " crashed")
    print("%d control(s) failed" % len(FAILS) if FAILS else "all judge controls behaved")
    sys.exit(1 if FAILS else 0)
