#!/venv/bin/python
import json, collections, sys
items=json.load(open(sys.argv[1]))
g=collections.defaultdict(list)
for x in items:
    if x.get('known') and '--all' not in sys.argv: continue
    it=x['item']; c=it['class']
    g[(it['clause'],c['tool'],c['sw'],c['app'],c['pre'],c['big'],c['named'],c['newn'],c['post'],c['same'],c.get('fits'))].append(x)
print("clause tool sw app pre big named newn post same fits")
for k,v in sorted(g.items(), key=lambda kv:str(kv[0])): print(len(v),k)
