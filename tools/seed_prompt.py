#!/usr/bin/env python3
"""Print the prompt given to a seeding sub-agent for one property (only the property text and its worktree)."""
import json, sys
pid, wt = sys.argv[1], sys.argv[2]
rnd2 = len(sys.argv) > 3 and sys.argv[3] == "2"
rnd3 = len(sys.argv) > 3 and sys.argv[3] == "3"
p = [json.loads(l) for l in open("/verif/properties.jsonl") if json.loads(l)["id"] == pid][0]
extra = ("  4. this is a SECOND round: the first, most obvious place where one would break this property has already been used by someone else. Pick less obvious sites: a helper shared with other features, state carried from one call / file / statement to the next, a rarely taken branch, an interaction between two modules or between the library and the command line tools, or an input at an unusual but valid boundary. The two changes must be in different functions (preferably different files) from each other.\n" if rnd2 else "")
if rnd3:
    extra = ("  4. this is a THIRD round: single-token slips (a changed comparison, constant or operator) and the obvious sites have all been tried already. Make changes of a different nature: a restructuring that moves a step before/after another one, a cache / memo / default argument / class attribute that carries state between calls, a helper that two callers now share although they need slightly different behaviour, a fast path for the common case that is wrong for a rare one, an error path that leaves something half done, an interaction between the command line tools and the library (option combinations, existing files, several files in one run), or behaviour that depends on the ORDER or NUMBER of earlier operations. Each change should need at least two circumstances to coincide before the property is violated. The two changes must be in different files from each other if at all possible.\n")
print(f"""You are helping test a verification framework by playing the role of a developer who introduces a subtle regression.

Project: craigthomas/CoCoAssembler (pure-Python Motorola 6809 assembler + CoCo cassette/disk image utility). You have your own scratch git worktree of it at {wt} . Work ONLY inside {wt} (do not touch /repo, do not read or write anything under /verif). Python to use: /venv/bin/python . The project's test suite: `cd {wt} && /venv/bin/python -m pytest -q -p no:cacheprovider` (about 490 tests pass; exactly 4 tests in test/test_integration.py fail before any change because they call assertEquals - ignore those 4).

The property that must be BROKEN by your change:

  Title: {p['title']}
  Statement: {p['statement']}
  It is quantified over: {p['quantifier']['text']}

Your task: make TWO different, independent changes (two separate patches, each against the unmodified worktree) to the project's source (not its tests) such that, for each one:
  1. the code still imports/runs and the existing test suite still passes exactly as before (same tests pass);
  2. the property above is violated for SOME inputs, but only under specific circumstances - a particular value range, operand form, distance, sequence of operations, unusual-but-valid input, or two cooperating code sites that each look fine alone. It must NOT be something ordinary use would expose at once (e.g. do not break every instruction);
  3. the change looks like a plausible refactoring slip, off-by-one, wrong threshold, dropped case or "optimisation" a real developer could make.
{extra}

For each change produce, in the directory {wt}/_seed/<n>/ (n = 1, 2):
  - patch.diff : `git diff` of the change against the unmodified worktree (must apply with `git apply` to a clean checkout);
  - demo.py : a small standalone script (run as `/venv/bin/python demo.py <path-to-repo-root>`, it should insert that path at sys.path[0]) that exits 0 on the unmodified code and exits non-zero (with a short message showing input, expected, got) on the changed code;
  - meta.json : {{"property": "{pid}", "summary": "...", "needs": "what specific circumstance is needed for it to manifest", "files": [...]}}
After writing patch 1, restore the worktree (`git checkout -- .`) before making patch 2, and leave the worktree clean at the end (the _seed directory is untracked, that is fine). Verify yourself: demo passes on clean tree, fails with the patch applied, and the test suite result is unchanged with the patch applied. Report briefly what the two changes are.""")
