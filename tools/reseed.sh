#!/bin/sh
# usage: tools/reseed.sh <seed id> <PROP>...  - re-run the quick checks against an already kept seeded change and update its meta.json
id=$1; shift
d=/verif/seeded/$id
cd /repo && git diff --quiet || { echo "/repo not clean"; exit 2; }
git apply $d/patch.diff || { echo "patch does not apply to /repo"; exit 2; }
res=""
for p in "$@"; do
  r=$(cd /verif && ./check $p --tier quick > out/seedrun_$p.log 2>&1; echo "exit=$? violations=$(grep -c '^VIOLATION' out/seedrun_$p.log)")
  res="$res\"$p\": \"$r\", "
done
git checkout -q -- .
/venv/bin/python - <<PY
import json
m=json.load(open("$d/meta.json"))
q=m.get("quick_checks_with_patch",{})
first=m.get("first_round", None)
if first is None: m["first_round"]=dict(q)
q.update({${res}})
m["quick_checks_with_patch"]=q
json.dump(m,open("$d/meta.json","w"),indent=1); print("$id", json.dumps(q))
PY
