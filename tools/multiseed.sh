#!/bin/sh
# usage: tools/multiseed.sh "C01 C02 ..." "1 2 3"  - run quick checks under several seeds, print one line each
cd "$(dirname "$0")/.." && mkdir -p out
for p in $1; do for s in $2; do
  ./check $p --tier quick --seed $s > out/ms_${p}_$s.log 2>&1; echo "$p seed=$s exit=$? $(tail -1 out/ms_${p}_$s.log)"
done; done
