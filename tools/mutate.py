#!/venv/bin/python
"""usage: tools/mutate.py gen <N> <seed>            -> out/mut/cands.json   (N sampled single-point mutants of cocoasm/*.py and the two CLIs)
          tools/mutate.py run [-j J] [--max M] [--tests-only] [--max-checks K]     -> out/mut/results.json (for each: do the 490 repository tests still pass? if so, which of my quick checks notices?)
          tools/mutate.py report

Automated counterpart of the hand-seeded changes: every mutant is one small syntactic change (comparison boundary, constant +-1,
arithmetic / boolean operator, negation dropped) applied to a SCRATCH worktree of /repo (never to /repo); mutants that the repository's own
tests kill are discarded - the rest 'compile and pass the existing tests', and the quick checks of the properties that the mutated file
can affect are run against the worktree (VERIF_REPO) until one reports a VIOLATION.  Survivors are either equivalent mutants or gaps in
my checks; they are triaged by hand (DESIGN.md II.7)."""
import ast, os, sys, json, random, subprocess, threading, queue, copy, hashlib

V = os.path.dirname(os.path.dirname(os.path.abspath(__file__)))
OUT = os.path.join(V, "out", "mut")
FILES = {
    "cocoasm/values.py": ["C04", "C01", "C12", "C05", "C03", "C02", "C13", "C06", "C07"],
    "cocoasm/operands.py": ["C01", "C12", "C04", "C05", "C03", "C02", "C13"],
    "cocoasm/statement.py": ["C01", "C03", "C12", "C05", "C04", "C02", "C13", "C18", "C19"],
    "cocoasm/program.py": ["C02", "C03", "C13", "C19", "C18", "C17", "C01"],
    "cocoasm/instruction.py": ["C01", "C03", "C12", "C02", "C05"],
    "cocoasm/virtualfiles/cassette.py": ["C06", "C14", "C09", "C11", "C16", "C10"],
    "cocoasm/virtualfiles/disk.py": ["C07", "C08", "C15", "C09", "C16", "C11", "C10"],
    "cocoasm/virtualfiles/virtual_file.py": ["C10", "C09", "C11", "C16"],
    "cocoasm/virtualfiles/virtual_file_container.py": ["C10", "C09", "C11"],
    "cocoasm/virtualfiles/source_file.py": ["C19", "C13", "C11"],
    "cocoasm/virtualfiles/binary.py": ["C11", "C16", "C10"],
    "cocoasm/virtualfiles/coco_file.py": ["C06", "C07", "C16"],
    "assembler.py": ["C13", "C11", "C10"],
    "file_util.py": ["C16", "C10", "C09"],
}
CMP = {ast.Lt: ast.LtE, ast.LtE: ast.Lt, ast.Gt: ast.GtE, ast.GtE: ast.Gt, ast.Eq: ast.NotEq, ast.NotEq: ast.Eq, ast.In: ast.NotIn, ast.NotIn: ast.In}
BIN = {ast.Add: ast.Sub, ast.Sub: ast.Add, ast.Mult: ast.FloorDiv, ast.BitAnd: ast.BitOr, ast.BitOr: ast.BitAnd, ast.LShift: ast.RShift, ast.RShift: ast.LShift, ast.Mod: ast.FloorDiv}


class Sites(ast.NodeVisitor):
    """enumerate mutation sites: (node id in a pre-order walk, kind, variant)"""
    def __init__(self):
        self.sites = []
        self.n = 0
        self.skip = 0

    def generic_visit(self, node):
        self.n += 1
        k = self.n
        if isinstance(node, ast.FunctionDef) and node.name in ("__str__", "__repr__", "ascii"):
            return
        if isinstance(node, ast.Expr) and isinstance(node.value, ast.Constant) and isinstance(node.value.value, str):
            return                                                    # docstring
        if isinstance(node, ast.Raise):
            return                                                    # wording of diagnostics is not a property
        if isinstance(node, ast.Compare) and len(node.ops) == 1 and type(node.ops[0]) in CMP:
            self.sites.append((k, "cmp", 0))
        if isinstance(node, ast.BinOp) and type(node.op) in BIN and not (isinstance(node.left, ast.Constant) and isinstance(node.left.value, str)):
            self.sites.append((k, "bin", 0))
        if isinstance(node, ast.BoolOp):
            self.sites.append((k, "bool", 0))
        if isinstance(node, ast.UnaryOp) and isinstance(node.op, ast.Not):
            self.sites.append((k, "not", 0))
        if isinstance(node, ast.Constant) and isinstance(node.value, int) and not isinstance(node.value, bool):
            self.sites.append((k, "const", 1))
            self.sites.append((k, "const", -1))
        if isinstance(node, ast.Constant) and isinstance(node.value, bool):
            self.sites.append((k, "boolconst", 0))
        if isinstance(node, ast.AugAssign) and type(node.op) in BIN:
            self.sites.append((k, "aug", 0))
        super().generic_visit(node)


class Apply(ast.NodeTransformer):
    def __init__(self, target, kind, variant):
        self.target, self.kind, self.variant, self.n, self.done = target, kind, variant, 0, None

    def generic_visit(self, node):
        self.n += 1
        k = self.n
        if isinstance(node, ast.FunctionDef) and node.name in ("__str__", "__repr__", "ascii"):
            return node
        if isinstance(node, ast.Expr) and isinstance(node.value, ast.Constant) and isinstance(node.value.value, str):
            return node
        if isinstance(node, ast.Raise):
            return node
        if k == self.target:
            before = ast.unparse(node)
            if self.kind == "cmp":
                node.ops = [CMP[type(node.ops[0])]()]
            elif self.kind in ("bin", "aug"):
                node.op = BIN[type(node.op)]()
            elif self.kind == "bool":
                node.op = ast.Or() if isinstance(node.op, ast.And) else ast.And()
            elif self.kind == "not":
                self.done = (getattr(node, "lineno", 0), before, ast.unparse(node.operand))
                return node.operand
            elif self.kind == "const":
                node = ast.copy_location(ast.Constant(node.value + self.variant), node)
            elif self.kind == "boolconst":
                node = ast.copy_location(ast.Constant(not node.value), node)
            self.done = (getattr(node, "lineno", 0), before, ast.unparse(node))
            return node
        return super().generic_visit(node)


def gen(n, seed):
    rnd = random.Random(seed)
    cands = []
    for f in FILES:
        src = open(os.path.join("/repo", f)).read()
        s = Sites()
        s.visit(ast.parse(src))
        for (k, kind, var) in s.sites:
            cands.append({"file": f, "node": k, "kind": kind, "variant": var})
    rnd.shuffle(cands)
    prev = os.path.join(V, "seeded", "mutation_candidates.json")
    if seed != 1 and os.path.exists(prev):                    # a further batch: sites not drawn before
        done = {(c["file"], c["node"], c["kind"], c["variant"]) for c in json.load(open(prev))["cands"]}
        cands = [c for c in cands if (c["file"], c["node"], c["kind"], c["variant"]) not in done and c["file"] != "cocoasm/instruction.py"]   # (the table's constants were covered by batch 1)
    # spread over the files: at most 20% from any one file
    out, per = [], {}
    for c in cands:
        if per.get(c["file"], 0) < 0.2 * n:
            out.append(c)
            per[c["file"]] = per.get(c["file"], 0) + 1
        if len(out) >= n:
            break
    for i, c in enumerate(out):
        c["id"] = ("m%04d" % i) if seed == 1 else ("s%d_%04d" % (seed, i))
    os.makedirs(OUT, exist_ok=True)
    json.dump({"head": subprocess.check_output(["git", "-C", "/repo", "rev-parse", "HEAD"], text=True).strip(), "all_sites": len(cands), "cands": out},
              open(os.path.join(OUT, "cands.json"), "w"), indent=1)
    print("sites: %d, sampled: %d" % (len(cands), len(out)), per)


def mutate_file(wt, c):
    path = os.path.join(wt, c["file"])
    src = open(os.path.join("/repo", c["file"])).read()
    tree = ast.parse(src)
    a = Apply(c["node"], c["kind"], c["variant"])
    tree = a.visit(tree)
    ast.fix_missing_locations(tree)
    # keep the file's line structure: replace only the mutated line range when possible, else unparse the whole file
    new = ast.unparse(tree)
    open(path, "w").write(new + "\n")
    return a.done


def sh(cmd, **kw):
    return subprocess.run(cmd, shell=True, stdout=subprocess.PIPE, stderr=subprocess.STDOUT, text=True, **kw)


def run(J, maxn, tests_only=False, max_checks=99):
    data = json.load(open(os.path.join(OUT, "cands.json")))
    rp = os.path.join(OUT, "results.json")
    results = json.load(open(rp)) if os.path.exists(rp) else {}
    q = queue.Queue()
    for c in data["cands"][:maxn]:
        if c["id"] not in results or (not tests_only and results[c["id"]]["status"] == "passes-repo-tests") or \
                (not tests_only and results[c["id"]]["status"] in ("survived", "refused-exit2") and any(results[c["id"]].get("checks", {}).get(p, 2) == 2 for p in FILES[c["file"]][:max_checks])):
            q.put(c)
    lock = threading.Lock()

    def worker(w):
        wt = "/tmp/mut_wt%d" % w
        sh("git -C /repo worktree remove --force %s; rm -rf %s; git -C /repo worktree add -f --detach %s HEAD" % (wt, wt, wt))
        try:
            while True:
                try:
                    c = q.get_nowait()
                except queue.Empty:
                    return
                sh("git -C %s reset -q --hard" % wt)
                try:
                    done = mutate_file(wt, c)
                except Exception as e:
                    done = None
                r = {"file": c["file"], "kind": c["kind"], "change": done}
                known_pass = results.get(c["id"], {}).get("status") in ("passes-repo-tests", "survived")
                if not done or done[1] == done[2]:
                    r["status"] = "no-change"
                else:
                    b = None if known_pass else sh("%s %s" % (os.path.join(V, "tools", "baseline.py"), wt))
                    if b is not None and "490 passing now" not in b.stdout:
                        r["status"] = "killed-by-repo-tests"
                    else:
                        r["status"] = "survived"
                        r["checks"] = {}
                        prev = results.get(c["id"], {}).get("checks", {})
                        r["checks"] = dict(prev)
                        for p in ([] if tests_only else [x for x in FILES[c["file"]][:max_checks] if prev.get(x, 2) == 2]):
                            log = os.path.join(OUT, "%s_%s.log" % (c["id"], p))
                            rr = subprocess.run([os.path.join(V, "check"), p, "--tier", "quick"], stdout=open(log, "w"), stderr=subprocess.STDOUT,
                                                env=dict(os.environ, VERIF_REPO=wt, VERIF_FAILFAST="1", VERIF_SKIP_GATES="1"), cwd=V)
                            r["checks"][p] = rr.returncode
                            if rr.returncode == 1:
                                r["status"] = "caught"
                                r["by"] = p
                                os.remove(log)
                                break
                            if rr.returncode == 0:
                                os.remove(log)
                if r["status"] == "survived" and any(v == 2 for v in r.get("checks", {}).values()):
                    r["status"] = "refused-exit2"          # no check passed it off as fine: at least one stopped with a machinery failure (never a pass)
                with lock:
                    if r["status"] == "survived" and tests_only:
                        r["status"] = "passes-repo-tests"
                    results[c["id"]] = r
                    json.dump(results, open(rp, "w"), indent=1)
                    print(c["id"], c["file"], r["status"], r.get("by", ""), done, flush=True)
        finally:
            sh("git -C /repo worktree remove --force %s; rm -rf %s; git -C /repo worktree prune" % (wt, wt))
    ts = [threading.Thread(target=worker, args=(w,)) for w in range(J)]
    [t.start() for t in ts]
    [t.join() for t in ts]


def report():
    results = json.load(open(os.path.join(OUT, "results.json")))
    import collections
    c = collections.Counter(r["status"] for r in results.values())
    print(dict(c))
    by = collections.Counter(r.get("by") for r in results.values() if r["status"] == "caught")
    print("caught by:", dict(by))
    for k, r in sorted(results.items()):
        if r["status"] == "survived":
            print(k, r["file"], r["change"], r["checks"])


if __name__ == "__main__":
    if sys.argv[1] == "gen":
        gen(int(sys.argv[2]), int(sys.argv[3]))
    elif sys.argv[1] == "run":
        a = sys.argv[2:]
        J, M, T, K = 2, 10 ** 9, False, 99
        while a:
            if a[0] == "-j":
                J = int(a[1]); a = a[2:]
            elif a[0] == "--max":
                M = int(a[1]); a = a[2:]
            elif a[0] == "--tests-only":
                T = True; a = a[1:]
            elif a[0] == "--max-checks":
                K = int(a[1]); a = a[2:]
        run(J, M, T, K)
    else:
        report()
