#!/venv/bin/python
"""usage: tools/reseed_all.py [-j N] [--fast] [seed-id ...]
Re-run, for every kept seeded change (or the named ones), the quick checks recorded in its meta.json, with the patch applied to a
SCRATCH worktree of /repo (VERIF_REPO=<worktree>), N seeds in parallel; update meta.json (first_round keeps what the checks said when
the seed was first tried).  /repo itself is not touched, so this can run next to other work; the worktrees live under /tmp and are
removed at the end.  Evidence files written by these runs are NOT evidence of the unchanged tree: re-run the checks afterwards."""
import os, sys, json, subprocess, glob, threading, queue, shutil

V = os.path.dirname(os.path.dirname(os.path.abspath(__file__)))
args = sys.argv[1:]
J = 2
FAST = False
while args[:1] and args[0] in ("-j", "--fast"):
    if args[0] == "-j":
        J = int(args[1]); args = args[2:]
    else:
        FAST = True; args = args[1:]          # stop at the first violation and skip the model-checking gates (they do not depend on the tree)
ids = args or sorted(os.path.basename(os.path.dirname(p)) for p in glob.glob(os.path.join(V, "seeded", "*", "meta.json")))
os.makedirs(os.path.join(V, "out", "reseed"), exist_ok=True)
q = queue.Queue()
for i in ids:
    q.put(i)
lock = threading.Lock()


def sh(cmd, **kw):
    return subprocess.run(cmd, shell=True, stdout=subprocess.PIPE, stderr=subprocess.STDOUT, text=True, **kw)


def worker(w):
    wt = "/tmp/reseed_wt%d" % w
    sh("git -C /repo worktree remove --force %s; rm -rf %s; git -C /repo worktree add -f --detach %s HEAD" % (wt, wt, wt))
    try:
        while True:
            try:
                sid = q.get_nowait()
            except queue.Empty:
                return
            d = os.path.join(V, "seeded", sid)
            m = json.load(open(os.path.join(d, "meta.json")))
            props = list(m.get("quick_checks_with_patch", {}).keys()) or [sid[:3]]
            sh("git -C %s reset -q --hard; git -C %s clean -fdq" % (wt, wt))
            r = sh("git -C %s apply %s" % (wt, os.path.join(d, "patch.diff")))
            if r.returncode != 0:
                # the tree moved on under the patch (a later fix: commit touched the same lines): merge it three-way from the blobs the patch names and, when
                # that is clean, store the rebased patch (the change itself is the same; recorded in meta.json)
                sh("git -C %s reset -q --hard" % wt)
                r3 = sh("git -C %s apply --3way %s" % (wt, os.path.join(d, "patch.diff")))
                conflict = sh("git -C %s diff --name-only --diff-filter=U" % wt).stdout.strip()
                if r3.returncode == 0 and not conflict:
                    sh("git -C %s reset -q" % wt)
                    newp = sh("git -C %s diff" % wt).stdout
                    if newp.strip():
                        open(os.path.join(d, "patch.diff"), "w").write(newp)
                        m["rebased"] = "patch.diff rebased onto /repo %s with git apply --3way (a later fix: commit touched the same lines)" % sh("git -C /repo rev-parse --short HEAD").stdout.strip()
                        r = r3
                else:
                    sh("git -C %s reset -q --hard" % wt)
            if r.returncode != 0:
                with lock:
                    print("%s: PATCH DOES NOT APPLY %s" % (sid, r.stdout.strip()[:200]), flush=True)
                continue
            res = {}
            for p in props:
                log = os.path.join(V, "out", "reseed", "%s_%s.log" % (sid, p))
                env = dict(os.environ, VERIF_REPO=wt)
                if FAST:
                    env.update(VERIF_FAILFAST="1", VERIF_SKIP_GATES="1")
                rr = subprocess.run([os.path.join(V, "check"), p, "--tier", "quick"], stdout=open(log, "w"), stderr=subprocess.STDOUT, env=env, cwd=V)
                nv = sum(1 for l in open(log) if l.startswith("VIOLATION"))
                res[p] = "exit=%d violations=%d" % (rr.returncode, nv)
            if "first_round" not in m:
                m["first_round"] = dict(m.get("quick_checks_with_patch", {}))
            m["quick_checks_with_patch"] = dict(m.get("quick_checks_with_patch", {}), **res)
            m["reran"] = "tools/reseed_all.py (patch applied to a scratch worktree, VERIF_REPO)"
            json.dump(m, open(os.path.join(d, "meta.json"), "w"), indent=1)
            with lock:
                caught = [p for p, v in res.items() if v.startswith("exit=1")]
                print("%s: %s%s" % (sid, json.dumps(res), "" if caught else "   <-- NOT CAUGHT"), flush=True)
    finally:
        sh("git -C /repo worktree remove --force %s; rm -rf %s; git -C /repo worktree prune" % (wt, wt))


ts = [threading.Thread(target=worker, args=(w,)) for w in range(J)]
[t.start() for t in ts]
[t.join() for t in ts]
