#!/usr/bin/env python3
"""Regenerate the generated tables of DESIGN.md (II.1 measures from evidence/*.json, II.6 seeded changes from seeded/*/meta.json)."""
import subprocess, os, re
V = os.path.dirname(os.path.dirname(os.path.abspath(__file__)))
p = os.path.join(V, "DESIGN.md")
s = open(p).read()
for tag, tool in (("measures", "measures.py"), ("seedtable", "seedtable.py")):
    out = subprocess.check_output([os.path.join(V, "tools", tool)], text=True)
    a = s.index("<!-- BEGIN %s" % tag)
    a = s.index("\n", a) + 1
    b = s.index("<!-- END %s -->" % tag)
    s = s[:a] + out + s[b:]
open(p, "w").write(s)
