#!/bin/sh
# usage: tools/covrun.sh <scratch worktree of /repo> [checks...]
# Branch coverage of the implementation under the quick checks (coverage.py from /venv, multiprocessing aware), to find
# code the generators never reach.  Runs against a scratch worktree (VERIF_REPO) so /repo stays untouched; report in out/cov/report.txt.
wt=$1; shift
props=${*:-"C01 C02 C03 C04 C05 C06 C07 C09 C10 C11 C12 C13 C16 C17 C18 C19"}
cd /verif && mkdir -p out/cov && rm -f out/cov/data*
cat > out/cov/rc <<RC
[run]
concurrency = multiprocessing
parallel = true
branch = true
data_file = /verif/out/cov/data
source = $wt/cocoasm
    $wt
omit = $wt/test/*
RC
for p in $props; do
  VERIF_REPO=$wt /venv/bin/coverage run --rcfile=out/cov/rc ./check $p > out/cov/$p.log 2>&1
  echo "$p exit=$? $(tail -1 out/cov/$p.log | cut -c1-150)"
done
/venv/bin/coverage combine --rcfile=out/cov/rc >/dev/null 2>&1
/venv/bin/coverage report --rcfile=out/cov/rc -m > out/cov/report.txt 2>&1
tail -25 out/cov/report.txt
