#!/venv/bin/python
"""Run the repository's pinned test suite (guard off) and compare with /root/.vp/BASELINE.json.
Exit 0 iff every stable_pass test still passes."""
import json, os, subprocess, sys, tempfile, xml.etree.ElementTree as ET
base = json.load(open("/root/.vp/BASELINE.json"))
want = set(base["stable_pass"])
repo = sys.argv[1] if len(sys.argv) > 1 else "/repo"
fd, path = tempfile.mkstemp(suffix=".xml", dir="/verif/out" if os.path.isdir("/verif/out") else None)
os.close(fd)
env = dict(os.environ)
env.pop("COCOASM_VERIF", None)
subprocess.run(["/venv/bin/python", "-m", "pytest", "-ra", "-q", "-p", "no:cacheprovider", "--timeout=900",
                "--continue-on-collection-errors", "--junitxml=" + path], cwd=repo, env=env,
               stdout=subprocess.DEVNULL, stderr=subprocess.DEVNULL)
passed = set()
for tc in ET.parse(path).getroot().iter("testcase"):
    if not any(ch.tag in ("failure", "error", "skipped") for ch in tc):
        passed.add(tc.get("classname") + "::" + tc.get("name"))
os.remove(path)
missing = sorted(want - passed)
print("baseline: %d expected, %d passing now, %d missing" % (len(want), len(passed), len(missing)))
for m in missing[:20]:
    print("  MISSING", m)
sys.exit(1 if missing else 0)
