#!/bin/sh
# usage: tools/thorough.sh "C13 C12 ..." [seed]  - run thorough checks sequentially, print summary + violation groups
cd "$(dirname "$0")/.." && mkdir -p out
for p in $1; do
  ./check $p --tier thorough --seed ${2:-0} > out/th_$p.log 2>&1; echo "$p exit=$? $(tail -1 out/th_$p.log)"
  grep -A1 "^VIOLATION" out/th_$p.log | grep -v "^--" | head -40
  grep "^KNOWN" out/th_$p.log | cut -c1-160
done
