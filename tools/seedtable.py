#!/usr/bin/env python3
"""Print the markdown table of seeded changes (seeded/*/meta.json) for DESIGN.md II.6"""
import json, glob, os
rows = []
for f in sorted(glob.glob("/verif/seeded/*/meta.json")):
    m = json.load(open(f))
    sid = os.path.basename(os.path.dirname(f))
    q = m.get("quick_checks_with_patch", {})
    first = m.get("first_round")
    caught = [p for p, r in q.items() if "exit=1" in r]
    missed = [p for p, r in q.items() if "exit=0" in r]
    note = ""
    if first:
        fm = [p for p, r in first.items() if "exit=1" not in r]
        if fm:
            note = " (missed by %s at first; check strengthened)" % ",".join(fm)
    rows.append("| %s | %s | %s | %s%s |" % (sid, m.get("property", ""), (m.get("summary", "")[:150] + "...").replace("|", "/").replace("\n", " "), ", ".join(caught) or "-", note + ((" ; not by: " + ",".join(missed)) if missed else "")))
print("| seed | breaks | change | caught by (quick) |")
print("|---|---|---|---|")
print("\n".join(rows))
print("\n%d seeded changes" % len(rows))
