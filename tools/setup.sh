#!/bin/sh
# Offline setup: nothing to build (pure Python harness, TLA+ specs). Parse every spec module with SANY.
set -e
cd "$(dirname "$0")/.."
mkdir -p out evidence
fail=0
for f in spec/*.tla; do
  m=$(basename "$f")
  if ! (cd spec && java -cp /opt/veriftools/tla/tla2tools.jar:/opt/veriftools/tla/CommunityModules-deps.jar tla2sany.SANY "$m" > ../out/sany.log 2>&1) || grep -q "Semantic errors\|Parse Error\|Fatal errors\|Could not parse" out/sany.log; then
    echo "SANY failed on $m"; cat out/sany.log | tail -20; fail=1
  fi
done
/venv/bin/python -c "import sys; sys.path.insert(0,'/repo'); import cocoasm.program, cocoasm._verif"
exit $fail
