#!/venv/bin/python
"""Regenerate MANIFEST.json from the table below (kept in one place so that it always validates)."""
import json, os, subprocess
V = "/verif"
ASMTECH = "TLC model checking (AsmRef / AsmSizing / M6809 gates) + TLC-exported cases replayed into cocoasm + TLC trace validation of recorded assemblies against the certificate of Asm.tla"
CLAIMED = {
 "C01": ("spec/M6809.tla codec (two datasheet transcriptions, inverse + round trip checked by TLC), spec/AsmRef.tla reference assembler model-checked against the certificate of spec/Asm.tla; TLC enumerates every mnemonic x operand form x boundary value x spelling, each is assembled by the real code and the recorded bytes/addresses are judged by TLC (bytes in Asm!Acceptable, decodes as one instruction of that mnemonic)",
         ASMTECH, "7 C01"),
 "C03": ("spec/AsmSizing.tla models the 8/16-bit sizing loop as a step function; TLC checks WidthSafe / NoLivelock / termination on all programs of <=3 (thorough <=4) items, and (MC_AsmSizingC) WidthSafe with label+-constant operands over the constants 0, +-4, +-126, +-200; every explored program is replayed and the hook events of the real loop are validated step by step against AsmSizing!Step; distance sweeps of all branch mnemonics and label,PCR forms are judged by the certificate (displacement reaches target, field wide enough, out-of-range short branch rejected); branches and label,PCR operands across a second ORG (recorded finding) ",
         ASMTECH + "; stateful trace validation of sizing-loop hook events (Tr_Sizing)", "7 C03"),
 "C12": ("M6809!Decode is a total decoder checked against the encoder by TLC; TLC enumerates the ill-typed forms (wrong mode / register / too-wide value) for every mnemonic row, which must be rejected; single-edit mutations and random operand strings are assembled and whatever is accepted is judged by TLC: decodes as exactly one instruction of that mnemonic, consuming all bytes, byte count = reserved space",
         ASMTECH, "7 C12"),
 "C02": ("spec/AsmRef.tla states LayoutInv directly (addresses advance by the bytes emitted, labels name their statement's address) and TLC checks it together with CertOK on all programs of the bounded model; those programs, one labelled frame per opcode-table cell and seeded random programs of 3-200 statements (ORG placements, EQUs, duplicate/undefined labels) are assembled and TLC judges every recorded listing/image/symbol table/origin; spec/AsmPasses.tla gives one step predicate per pass of translate_statements (collect, translate, size, lay, fix, backpatch), MC_AsmPasses checks that they are satisfiable, tight and together imply the end-to-end statement, and Tr_Passes validates the pass-boundary hook events of random programs against them",
         ASMTECH, "7 C02"),
 "C04": ("Asm!Eval is the 16-bit expression semantics (limb multiplication, truncating division, division by zero, overflow latitude); TLC enumerates operand position x {number, EQU before/after, label before/after} op {same} for + - * / in a fixed frame at two origins; each program is assembled and TLC checks that the encoded value equals Eval under the environment the listing itself claims, and the symbol-table values; a label whose address sits on every width boundary in every fixed-width operand position, and one label referenced through fields of different width in one program",
         ASMTECH, "7 C04"),
 "C05": ("Asm!AcceptableData: FCB/FDB/FCC/RMB byte strings, range rules, non-emitting directives; TLC enumerates list shapes x value classes x spellings and FCC strings from the string-class lattice x delimiters; assembled in labelled frames and judged by TLC; also tabs / control characters / characters above $7E inside strings, text glued to the closing delimiter, and the same list text under FCB and FDB in one program",
         ASMTECH, "7 C05"),
 "C13": ("termination of the data-dependent sizing loop is a liveness property of spec/AsmSizing.tla checked by TLC (plus bounded-progress invariant); the explored programs, PCR distance sweeps, random valid programs, single-line mutations and random lines are run under a watchdog and TLC judges the outcome clause (ok | parse | translation, diagnostic names a statement); CLI sample as subprocesses: diagnostic => exit != 0, no output file; very long tokens (a rejecting pattern must not backtrack exponentially), degenerate sources (empty file, comment only, INCLUDE of an empty file) through the CLI, branches across a second ORG with more than 64K in between, and a success must leave the image it was asked for",
         ASMTECH + "; CLI exit-status / output-file observation", "7 C13"),
 "C06": ("spec/Tape.tla: the tape writer as a block-by-block state machine and a CLOAD-like checksum-verifying scanner; TLC checks at every block boundary that the stream written so far scans to exactly the files written (BLK=3, marker-byte alphabet, all layouts); tool-written tapes (boundary lengths, marker contents, all address/type variants) are scanned by the spec and the tool's own listing compared; spec-written streams with arbitrary leaders/gaps are listed by the tool; every third tool-written tape goes through the host layer (VirtualFile), lists hold several files of one name and files carrying the gap flag $FF",
         "TLC model checking of Tape writer/scanner + TLC-written streams replayed into the tool's reader + TLC validation of tool-written tapes", "7 C06"),
 "C14": ("same runs as C06, structural clauses: the spec's scanner (sync, type, length, payload, checksum, trailer, block order, <=255-byte payloads, 15-byte name block) must accept every tape the tool writes, recover exactly the files, and count 2 + ceil(len/255) blocks per file; chunking law checked by TLC for all 65536 lengths",
         "TLC model checking of Tape writer/scanner + exhaustive chunking law + TLC validation of tool-written tapes", "7 C14"),
 "C07": ("spec/Disk.tla (abstract allocation machine) + spec/Tr_Disk.tla (byte-level Disk BASIC reader following chains in FAT order); every add of every history is judged per file, the tool's own listing must return all files stored so far, and images written by the specification with arbitrary, non-adjacent chains must be listed exactly by the tool",
         "TLC model checking of the Disk allocation machine (real and small geometry, exhaustion runs, exhaustive length bookkeeping) + TLC-exported add-sequences replayed into DiskFile + TLC validation of per-add image deltas (Tr_Disk)", "7 C07/C08/C15"),
 "C08": ("after every add TLC evaluates the Disk BASIC consistency clauses on the image delta: one new directory slot, chain within 0..67 without revisits ending in a marker with 0..9 sectors, chains disjoint / nothing of the old files touched, implied length = stream length, stream in chain order = header/data/trailer, directory fields, no byte changed outside the allocated granules, FAT and directory sectors, image size 161,280",
         "TLC model checking of the Disk allocation machine (real and small geometry, exhaustion runs, exhaustive length bookkeeping) + TLC-exported add-sequences replayed into DiskFile + TLC validation of per-add image deltas (Tr_Disk)", "7 C07/C08/C15"),
 "C15": ("Disk.tla states enabledness of AddFile exactly (granules needed vs free, slot free) and TLC checks Capacity / FitsIfRoom / exhaustion runs (72 slots, 68 granules); replayed sequences must succeed when the machine says they must fit and fail when they cannot, using the minimum number of granules (or one more at exact multiples), all previously free, and one slot; at host level: several large files in one command that do not all fit (all stored or the host file left as it was), commands that also write other outputs, exactly one directory entry per stored file",
         "TLC model checking of the Disk allocation machine (real and small geometry, exhaustion runs, exhaustive length bookkeeping) + TLC-exported add-sequences replayed into DiskFile + TLC validation of per-add image deltas (Tr_Disk)", "7 C07/C08/C15"),
 "C09": ("spec/Host.tla AppendPreserves / AppendHappens / NeverLost checked by TLC on all command histories of depth 2 (thorough 3); replayed through the CLIs and, for boundary-length files up to a full medium and tapes past 161,280 bytes, through VirtualFile open/add/save on real temp files; after every step the host bytes are read by the specification's readers (every earlier file, in order, then the new one) and the hook events (exists, sniffed kind, wrote) are validated; file_util --list is a read-only action of the machine whose output must name exactly the files the abstract content holds (tool reader vs spec reader after every history prefix)",
         "TLC model checking of the Host command machine (table vs separately phrased properties, all histories of bounded depth) + TLC-exported command histories replayed through both CLIs + TLC validation of every step: contents read by the spec's tape / disk readers, VirtualFile hook events", "7 C09"),
 "C10": ("spec/Host.tla: the table Allowed(pre, cmd) of required post contents and, independently phrased, OnlyAppendModifies / CompleteImage; TLC checks the table against them over the full matrix {--to_bin,--to_cas,--to_dsk} x {append, not} x 8 kinds of existing target x both tools and all 2-step sequences; every first-step cell and a seeded sample of the sequences is replayed through assembler.py / file_util.py, bytes before/after compared, what was written is classified by the spec's readers, refusals must print a message; one invocation naming the target under two switches is judged by the table composed with itself (Tr_Host AllowedSeq, write counts from the Save hook events; MC_Host SamePathTwice)",
         "TLC model checking of the Host command machine (table vs separately phrased properties, all histories of bounded depth) + TLC-exported command histories replayed through both CLIs + TLC validation of every step: contents read by the spec's tape / disk readers, VirtualFile hook events", "7 C10"),
 "C11": ("TLC enumerates the configuration space (name source x name shape x switches alone/combined x origin x image size x END operand); assembler.py is run on each, the .bin is compared with the API image and the .cas/.dsk are read by Tape!ParseTape / DiskBytes!ReadAll: one ML file, data = image, load = origin, entry, name rule, nothing created without a name; file_util --list must agree",
         "TLC-enumerated configurations replayed through assembler.py + TLC validation of the saved files with the spec's tape / disk readers (Tr_C11)", "7 C11"),
 "C16": ("conversions through file_util.py (tape<->disk<->binary, every kind of --files selection and spelling, and back) judged step by step with Host!Allowed: the target, read by the spec's readers, holds exactly the selected catalogue files in source order; source images also written by the specification (tapes recorded with gaps, disks with killed directory entries and scattered chains), several files of one name with and without --files, files of many granules",
         "TLC model checking of the Host command machine (table vs separately phrased properties, all histories of bounded depth) + TLC-exported command histories replayed through both CLIs + TLC validation of every step: contents read by the spec's tape / disk readers, VirtualFile hook events", "7 C16"),
 "C17": ("spec/Session.tla memo machine: out = memo[src] whenever src was seen; TLC enumerates every order of <= 4 assemblies over a pool of 8 sources; the reference output of a source is its assembly alone in a fresh interpreter, each history is run warm and in fresh processes under several hash seeds, and one earlier program out of thousands (ill-typed, mutated, random) is followed by six probe programs in the same interpreter; every event carries the full output, Tr_Session folds the memo machine over all of them",
         "TLC-exported histories replayed in warm and fresh interpreters + TLC validation with the memo machine (Tr_Session)", "7 C17"),
 "C18": ("Session!Relocated / Renamed / SameOutput / PrefixStable as operators over two recorded outputs; random accepted programs x {origin shift, label bijection, white space, comments, mnemonic case, suffix}; both assemblies are one pair trace judged by TLC; the reference assembler AsmRef is model-checked so the relations are known satisfiable",
         "TLC trace validation of pair traces (Tr_Pair) + TLC model checking of AsmRef", "7 C18"),
 "C19": ("spec/Include.tla: INCLUDE expansion as a stack machine, TLC checks it equals the recursive splice and rejects exactly cycles / missing files (with termination) on all 3-file configurations; random programs split into include trees (depth 3, every boundary), missing files and cycles are materialised in a temp dir and assembled versus the spliced file; Tr_Pair judges IncludeEquiv; include names spelled with ./ ../ a dot-file and an absolute path (decoys under the stripped names), and the same label-free file included several times; the initial states of MC_Include themselves (79,507 file sets: all in the thorough tier, 6,000 sampled per quick run) are written as real files, assembled through assembler.py and judged by Tr_Include against Include!Splice",
         "TLC model checking of the Include machine + the model's own file sets (Gen_Include) and random include trees replayed on disk + TLC validation (Tr_Include against Include!Splice; Tr_Pair for (including, spliced) pairs)", "7 C19"),
}
NOT_YET = {}
props = [json.loads(l) for l in open(V + "/properties.jsonl")]
checks, na = [], []
for p in props:
    pid = p["id"]
    if pid in CLAIMED:
        text, tech, ref = CLAIMED[pid]
        checks.append({
            "property_id": pid,
            "quick_cmd": "./check %s --tier quick" % pid,
            "thorough_cmd": "./check %s --tier thorough" % pid,
            "evidence_file": "evidence/%s.json" % pid,
            "replay_cmd_template": "./check %s --replay {path}" % pid,
            "engine": "tlc",
            "level_claimed": {"category": "model_checking", "text": text, "design_ref": "DESIGN.md section " + ref},
            "level_note": "bounded: TLC explores the specification exhaustively only up to the stated constants; the implementation is bound to it by replaying TLC-exported cases and by TLC validating recorded executions - code paths no generator drives are not covered. Trusted: TLC/SANY, the datasheet/format transcriptions in spec/, harness/asmio.py (render + observe).",
            "technique": tech,
        })
    else:
        na.append({"property_id": pid, "reason": NOT_YET.get(pid, "check not built yet in this round (specification module planned in DESIGN.md); not claimed")})
src = subprocess.run(["git", "-C", "/repo", "log", "--format=%h %s"], stdout=subprocess.PIPE).stdout.decode().splitlines()
hooks = [l.split()[0] for l in src if l.split(" ", 1)[1].startswith("verif:")]
m = {
 "version": 1,
 "setup_cmd": "./tools/setup.sh",
 "hooks": {"guard": "COCOASM_VERIF", "enable": "export COCOASM_VERIF=1 (pure Python: checks import /repo's working tree directly; cocoasm/_verif.py emits events only when the variable is 1)",
           "baseline_off_cmd": "cd /repo && env -u COCOASM_VERIF /venv/bin/python -m pytest -ra -q -p no:cacheprovider --timeout=900 --continue-on-collection-errors",
           "source_commits": hooks, "add_only": True},
 "engines": [{"name": "tlc", "path": "harness/tlc.py", "serves_properties": sorted(CLAIMED), "kind_free_text": "TLC 1.8 as model checker, case/behaviour exporter and bulk trace validator over spec/*.tla"}],
 "checks": checks,
 "not_applicable": na,
 "notes": "Known genuine defects that are recorded rather than repaired are in known_findings.json; repaired ones are 'fix:' commits in /repo listed there as fixed. See DESIGN.md.",
}
json.dump(m, open(V + "/MANIFEST.json", "w"), indent=1)
print("claimed", len(checks), "not_applicable", len(na))
