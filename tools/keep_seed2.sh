#!/bin/sh
# usage: tools/keep_seed2.sh <seed dir with patch.diff demo.py meta.json> <scratch worktree> <seed id> <PROP>...
# Like keep_seed.sh, but the quick checks run against the SCRATCH worktree (VERIF_REPO) with the patch applied there - /repo is not
# touched, so several of these can run side by side.  Confirms first: demo passes on the clean worktree, fails with the patch, baseline unchanged.
src=$1; wt=$2; id=$3; shift 3
out=/verif/seeded/$id; mkdir -p $out
cp $src/patch.diff $src/demo.py $out/ ; cp $src/meta.json $out/meta.agent.json
cd $wt && git checkout -q -- . && git status --short | grep -v '^??'
clean_demo=$( /venv/bin/python $src/demo.py $wt >/dev/null 2>&1; echo $? )
git apply $src/patch.diff || { echo "patch does not apply in worktree"; exit 2; }
patched_demo=$( /venv/bin/python $src/demo.py $wt >/dev/null 2>&1; echo $? )
tests=$( /verif/tools/baseline.py $wt | head -1 )
res=""
mkdir -p /verif/out/seedrun
for p in "$@"; do
  r=$(cd /verif && VERIF_REPO=$wt ./check $p --tier quick > out/seedrun/${id}_$p.log 2>&1; echo "exit=$? violations=$(grep -c '^VIOLATION' out/seedrun/${id}_$p.log)")
  res="$res\"$p\": \"$r\", "
done
git checkout -q -- .
/venv/bin/python - <<PY
import json
m=json.load(open("$out/meta.agent.json"))
m.update({"seed_id":"$id","confirmed":{"demo_exit_clean":$clean_demo,"demo_exit_patched":$patched_demo,"baseline_with_patch":"$tests"},
          "quick_checks_with_patch":{${res}},"ran":"tools/keep_seed2.sh (scratch worktree for demo, baseline and the quick checks: VERIF_REPO=<worktree with the patch>)"})
json.dump(m,open("$out/meta.json","w"),indent=1); print(json.dumps(m["confirmed"]), json.dumps(m["quick_checks_with_patch"]))
PY
rm -f $out/meta.agent.json
