#!/bin/sh
# usage: tools/try_seed.sh <patch.diff> <PROP> [<PROP>...]   - apply a seeded change to /repo, run the quick checks, undo it
patch=$1; shift
cd /repo || exit 2
git diff --quiet || { echo "/repo not clean"; exit 2; }
git apply "$patch" || { echo "patch does not apply"; exit 2; }
for p in "$@"; do
  (cd /verif && ./check $p --tier quick > out/seedrun_$p.log 2>&1; echo "$p exit=$? $(grep -c '^VIOLATION' out/seedrun_$p.log) violations; $(tail -1 out/seedrun_$p.log)")
done
git checkout -- . ; git status --short | grep -v '^??' | head -3
