#!/venv/bin/python
"""Group the failing items of a census file (out/census/<prop>-<tier>-<seed>.json) by class pattern."""
import sys, json, collections
items = json.load(open(sys.argv[1]))
keys = sys.argv[2].split(",") if len(sys.argv) > 2 else ["mnclass", "form", "sub", "ind", "force", "valclass", "valsrc", "sp"]
only_unknown = "--all" not in sys.argv
g = collections.defaultdict(list)
for x in items:
    if only_unknown and x["known"]:
        continue
    it = x["item"]; c = it["class"]; s = it["symptom"]
    g[(it["clause"],) + tuple(str(c.get(k)) for k in keys) + (s.get("dlen"), s.get("dres"), s.get("exc"), s.get("why"))].append(x)
for k, v in sorted(g.items(), key=lambda kv: str(kv[0])):
    x = v[0]
    ln = x["lines"][x["k"] - 1].strip() if x["lines"] and x["k"] else (x["lines"] or [""])[0].strip()
    mns = sorted(set(y["item"]["class"].get("mn", "") for y in v))
    print(len(v), k, "mns=%d" % len(mns), mns[:4], "| e.g.", repr(ln), "got", " ".join("%02X" % b for b in (x["item"]["symptom"].get("got") or []) if isinstance(b, int) and b >= 0))
print(len(g), "groups", sum(len(v) for v in g.values()), "items")
