#!/bin/sh
# usage: tools/keep_seed.sh <seed dir with patch.diff demo.py meta.json> <scratch worktree> <seed id> <PROP>...
# Confirms the seeded change (demo passes on clean tree, fails with the patch, baseline tests unchanged) in the scratch
# worktree, runs the listed quick checks against /repo with the patch applied, and stores everything under seeded/<id>/.
src=$1; wt=$2; id=$3; shift 3
out=/verif/seeded/$id; mkdir -p $out
cp $src/patch.diff $src/demo.py $out/ ; cp $src/meta.json $out/meta.agent.json
cd $wt && git checkout -q -- . && git status --short | grep -v '^??' 
clean_demo=$( /venv/bin/python $src/demo.py $wt >/dev/null 2>&1; echo $? )
git apply $src/patch.diff || { echo "patch does not apply in worktree"; exit 2; }
patched_demo=$( /venv/bin/python $src/demo.py $wt >/dev/null 2>&1; echo $? )
tests=$( /verif/tools/baseline.py $wt | head -1 )
git checkout -q -- .
res=""
cd /repo && git diff --quiet || { echo "/repo not clean"; exit 2; }
git apply $src/patch.diff || { echo "patch does not apply to /repo"; exit 2; }
for p in "$@"; do
  r=$(cd /verif && ./check $p --tier quick > out/seedrun_$p.log 2>&1; echo "exit=$? violations=$(grep -c '^VIOLATION' out/seedrun_$p.log)")
  res="$res\"$p\": \"$r\", "
done
git checkout -q -- .
/venv/bin/python - <<PY
import json
m=json.load(open("$out/meta.agent.json"))
m.update({"seed_id":"$id","confirmed":{"demo_exit_clean":$clean_demo,"demo_exit_patched":$patched_demo,"baseline_with_patch":"$tests"},
          "quick_checks_with_patch":{${res}},"ran":"tools/keep_seed.sh (scratch worktree for demo + baseline; git -C /repo apply, ./check <P> --tier quick, git checkout)"})
json.dump(m,open("$out/meta.json","w"),indent=1); print(json.dumps(m["confirmed"]), json.dumps(m["quick_checks_with_patch"]))
PY
rm -f $out/meta.agent.json
