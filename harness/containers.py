"""Driving the cassette / disk containers of cocoasm and projecting what they hold for the TLA+ judges."""
import os, sys, random
from harness import asmio   # sets sys.path to the repo and COCOASM_VERIF

GB = 2304


def codes(s):
    return [ord(c) & 0xFF for c in s]


def mkfile(name, data, ftype=2, dtype=0, load=0x0E00, exec_=0x0E00, ext="BIN"):
    return {"name": name, "ext": ext, "type": ftype, "dtype": dtype, "gap": 0, "a1": load, "a2": exec_, "data": list(data)}


def content(rnd, kind, n):
    if kind == "ramp":
        return [(i * 7 + 3) & 255 for i in range(n)]
    if kind == "55":
        return [0x55] * n
    if kind == "3c":
        return [0x3C] * n
    if kind == "00":
        return [0] * n
    if kind == "ff":
        return [0xFF] * n
    if kind == "marker":
        return [[0x55, 0x3C, 0x00, 0x55, 0x3C, 0x01, 0x55, 0x3C, 0xFF][i % 9] for i in range(n)]
    return [rnd.randrange(256) for _ in range(n)]


def to_coco(f):
    from cocoasm.virtualfiles.coco_file import CoCoFile
    from cocoasm.values import NumericValue
    return CoCoFile(name=f["name"], extension=f.get("ext", "BIN"), type=NumericValue(f["type"]), data_type=NumericValue(f["dtype"]),
                    load_addr=NumericValue(f["a1"]), exec_addr=NumericValue(f["a2"]), data=list(f["data"]))


def jfile(f):
    """file record for the TLA+ judges (names as character codes)"""
    return {"name": codes(f["name"]), "ext": codes(f.get("ext", "")), "type": f["type"], "dtype": f["dtype"], "gap": f.get("gap", 0),
            "a1": f["a1"], "a2": f["a2"], "data": list(f["data"])}


def from_coco(c):
    def iv(v):
        try:
            return v.int if not v.is_none() else 0
        except Exception:
            return 0
    return {"name": codes(c.name), "ext": codes(c.extension or ""), "type": iv(c.type), "dtype": iv(c.data_type), "gap": 0,
            "a1": iv(c.load_addr), "a2": iv(c.exec_addr), "data": [int(b) for b in c.data]}


def list_tape(buf):
    from cocoasm.virtualfiles.cassette import CassetteFile
    try:
        out = CassetteFile(buffer=list(buf)).list_files()
        return {"ok": True, "files": [from_coco(c) for c in out], "exc": ""}
    except Exception as e:
        return {"ok": False, "files": [], "exc": type(e).__name__ + ":" + str(e)[:60]}


def write_tape(files):
    from cocoasm.virtualfiles.cassette import CassetteFile
    c = CassetteFile()
    c.add_files([to_coco(f) for f in files])
    return [int(b) for b in c.get_buffer()]


def tape_case(args):
    """tool writes the tape, tool lists it back"""
    tid, files = args
    try:
        buf = write_tape(files)
        werr = ""
    except Exception as e:
        buf, werr = [], type(e).__name__ + ":" + str(e)[:60]
    return {"id": tid, "origin": "tool", "files": [jfile(f) for f in files], "buffer": buf, "listed": list_tape(buf), "werr": werr}


def random_tape_files(rnd, lengths=None, maxfiles=4):
    lengths = lengths or [0, 1, 2, 254, 255, 256, 509, 510, 511, 765, 1020, 5000]
    nf = rnd.choice([0, 1, 1, 2, 3, maxfiles])
    out = []
    for _ in range(nf):
        name = rnd.choice(["A", "HELLO", "ABCDEFGH", "ABCDEFGHIJKL", "", "U<", "lower", "MiXeD1", "12345678", "X" * rnd.randint(1, 12)])
        n = rnd.choice(lengths)
        out.append(mkfile(name, content(rnd, rnd.choice(["ramp", "55", "3c", "marker", "rand", "00"]), n), rnd.choice([0, 1, 2, 3]), rnd.choice([0, 255]),
                          rnd.choice([0, 0x0E00, 0x553C, 0x3C00, 0x0055, 0xFFFF]), rnd.choice([0, 0x0E00, 0x3C55, 0x5500])))
    return out
