"""Driving the cassette / disk containers of cocoasm and projecting what they hold for the TLA+ judges."""
import os, sys, random
from harness import asmio   # sets sys.path to the repo and COCOASM_VERIF

GB = 2304


def codes(s):
    return [ord(c) & 0xFF for c in s]


def mkfile(name, data, ftype=2, dtype=0, load=0x0E00, exec_=0x0E00, ext="BIN", gap=0):
    return {"name": name, "ext": ext, "type": ftype, "dtype": dtype, "gap": gap, "a1": load, "a2": exec_, "data": list(data)}


def content(rnd, kind, n):
    if kind == "ramp":
        return [(i * 7 + 3) & 255 for i in range(n)]
    if kind == "55":
        return [0x55] * n
    if kind == "3c":
        return [0x3C] * n
    if kind == "00":
        return [0] * n
    if kind == "ff":
        return [0xFF] * n
    if kind == "marker":
        return [[0x55, 0x3C, 0x00, 0x55, 0x3C, 0x01, 0x55, 0x3C, 0xFF][i % 9] for i in range(n)]
    return [rnd.randrange(256) for _ in range(n)]


def to_coco(f):
    from cocoasm.virtualfiles.coco_file import CoCoFile
    from cocoasm.values import NumericValue
    kw = {"gaps": NumericValue(f["gap"])} if f.get("gap") else {}       # (a file read from a tape recorded with gaps carries the flag $FF)
    return CoCoFile(name=f["name"], extension=f.get("ext", "BIN"), type=NumericValue(f["type"]), data_type=NumericValue(f["dtype"]),
                    load_addr=NumericValue(f["a1"]), exec_addr=NumericValue(f["a2"]), data=list(f["data"]), **kw)


def jfile(f):
    """file record for the TLA+ judges (names as character codes)"""
    return {"name": codes(f["name"]), "ext": codes(f.get("ext", "")), "type": f["type"], "dtype": f["dtype"], "gap": f.get("gap", 0),
            "a1": f["a1"], "a2": f["a2"], "data": list(f["data"])}


def from_coco(c):
    def iv(v):
        try:
            return v.int if not v.is_none() else 0
        except Exception:
            return 0
    return {"name": codes(c.name), "ext": codes(c.extension or ""), "type": iv(c.type), "dtype": iv(c.data_type), "gap": iv(getattr(c, "gaps", None)) if getattr(c, "gaps", None) is not None else 0,
            "a1": iv(c.load_addr), "a2": iv(c.exec_addr), "data": [int(b) for b in c.data]}


def list_tape(buf):
    from cocoasm.virtualfiles.cassette import CassetteFile
    try:
        out = CassetteFile(buffer=list(buf)).list_files()
        return {"ok": True, "files": [from_coco(c) for c in out], "exc": ""}
    except Exception as e:
        return {"ok": False, "files": [], "exc": type(e).__name__ + ":" + str(e)[:60]}


def write_tape(files):
    from cocoasm.virtualfiles.cassette import CassetteFile
    c = CassetteFile()
    c.add_files([to_coco(f) for f in files])
    return [int(b) for b in c.get_buffer()]


def write_tape_vf(files):
    """the same through the host layer (what the command line tools do): VirtualFile on a new host file, add every file, save"""
    import tempfile, shutil
    from cocoasm.virtualfiles.virtual_file import VirtualFile, VirtualFileType
    from cocoasm.virtualfiles.source_file import SourceFile, SourceFileType
    W = tempfile.mkdtemp(prefix="tapevf", dir=os.environ.get("VERIF_SCRATCH"))
    try:
        path = os.path.join(W, "t.cas")
        vf = VirtualFile(SourceFile(path, file_type=SourceFileType.BINARY), VirtualFileType.CASSETTE)
        vf.open_virtual_file()
        for f in files:
            vf.add_coco_file(to_coco(f))
        vf.save_virtual_file(append_mode=False)
        return list(open(path, "rb").read()) if os.path.exists(path) else []
    finally:
        shutil.rmtree(W, ignore_errors=True)


def tape_case(args):
    """tool writes the tape (every third one through the host layer), tool lists it back"""
    tid, files = args
    try:
        buf = write_tape_vf(files) if tid % 3 == 2 else write_tape(files)
        werr = ""
    except Exception as e:
        buf, werr = [], type(e).__name__ + ":" + str(e)[:60]
    return {"id": tid, "origin": "tool", "files": [jfile(f) for f in files], "buffer": buf, "listed": list_tape(buf), "werr": werr}


def random_tape_files(rnd, lengths=None, maxfiles=4):
    lengths = lengths or [0, 1, 2, 254, 255, 256, 509, 510, 511, 765, 1020, 5000]
    nf = rnd.choice([0, 1, 1, 2, 3, maxfiles])
    out = []
    for _ in range(nf):
        # (a tape may hold several files of the same name, and names that differ only in case or behind the 8th character)
        name = rnd.choice(["A", "HELLO", "ABCDEFGH", "ABCDEFGHIJKL", "", "U<", "lower", "MiXeD1", "12345678", "X" * rnd.randint(1, 12), "HELLO", "hello", "ABCDEFGHZZ"])
        n = rnd.choice(lengths)
        out.append(mkfile(name, content(rnd, rnd.choice(["ramp", "55", "3c", "marker", "rand", "00"]), n), rnd.choice([0, 1, 2, 3]), rnd.choice([0, 255]),
                          rnd.choice([0, 0x0E00, 0x553C, 0x3C00, 0x0055, 0xFFFF]), rnd.choice([0, 0x0E00, 0x3C55, 0x5500, 0x553C, 0x553C]), gap=rnd.choice([0, 0, 0, 255])))
    return out


# ------------------------------------------------------------------ disk
FAT_OFF, DIR_OFF, IMG = 78592, 78848, 161280
T17 = GB * 34


def seek(g):
    return GB * g + (2 * GB if g > 33 else 0)


def expand_sparse(o):
    """the 161,280-byte image of a sparse image [fat, dir, grans] written by spec/Gen_Disk.tla"""
    buf = [0xFF] * IMG
    buf[FAT_OFF:FAT_OFF + 68] = o["fat"]
    buf[FAT_OFF + 68:FAT_OFF + 256] = [0] * 188
    buf[DIR_OFF:DIR_OFF + 2304] = o["dir"]
    for gr in o["grans"]:
        buf[seek(gr["g"]):seek(gr["g"]) + GB] = gr["b"]
    return buf


def list_disk(buf):
    from cocoasm.virtualfiles.disk import DiskFile
    try:
        out = DiskFile(buffer=list(buf)).list_files()
        return {"ok": True, "files": [from_coco(c) for c in out], "exc": ""}
    except Exception as e:
        return {"ok": False, "files": [], "exc": type(e).__name__ + ":" + str(e)[:50]}


def snapshot_delta(prev, buf):
    grans = []
    for g in range(68):
        o = seek(g)
        b = buf[o:o + GB]
        if b != prev[o:o + GB]:
            grans.append({"g": g, "b": [int(x) for x in b]})
    stray = []
    rest = buf[FAT_OFF + 68:FAT_OFF + 256]
    for o in list(range(T17, FAT_OFF)) + list(range(DIR_OFF + 72 * 32, T17 + 2 * GB)):
        if buf[o] != prev[o]:                      # a delta, like the granules: a byte changed outside granules / FAT / directory
            stray.append(o)
    if any(x not in (0x00, 0xFF) for x in rest):
        stray.append(FAT_OFF + 68)
    if len(buf) != len(prev):
        stray.append(IMG)
    return {"fat": [int(x) for x in buf[FAT_OFF:FAT_OFF + 68]], "dir": [int(x) for x in buf[DIR_OFF:DIR_OFF + 72 * 32]],
            "grans": grans, "stray": stray[:8], "size": len(buf)}


EMPTY_SNAP = {"fat": [], "dir": [], "grans": [], "stray": [], "size": 0}


def disk_history(args):
    """one DiskFile, a sequence of add_file calls; returns the trace record for Tr_Disk"""
    from cocoasm.virtualfiles.disk import DiskFile
    hid, order, files = args
    d = DiskFile(granule_fill_order=list(order) if order else None)
    events = []
    prev = list(d.get_buffer())
    for f in files:
        try:
            d.add_file(to_coco(f))
            res, exc = "ok", ""
        except Exception as e:
            res, exc = "error", type(e).__name__ + ":" + str(e)[:50]
        buf = d.get_buffer()
        if res == "ok":
            ev = {"op": "add", "file": jfile(f), "result": "ok", "exc": "", "changed": True, "snap": snapshot_delta(prev, buf), "listed": list_disk(buf)}
            prev = list(buf)
        else:
            ev = {"op": "add", "file": jfile(f), "result": "error", "exc": exc, "changed": list(buf) != prev, "snap": EMPTY_SNAP, "listed": {"ok": False, "files": [], "exc": ""}}
        events.append(ev)
        if res != "ok":
            break
    return {"id": hid, "order": list(order) if order else [], "events": events}


# kind -> (file type, data type / ASCII flag, bytes the stored stream adds to the data).  A machine language file (type 2) has
# preamble + postamble whatever its ASCII flag; any other type with the ASCII flag is stored bare; otherwise a 3-byte preamble.
KINDS = {"ML": (2, 0, 10), "BAS": (0, 0, 3), "ASC": (1, 255, 0), "MLA": (2, 255, 10), "DAT": (1, 0, 3), "BASA": (0, 255, 0), "TXT": (3, 255, 0), "TXB": (3, 0, 3)}


def disk_file(rnd, name, kind, stream_len, ext=None, content_kind="rand"):
    ftype, dtype, extra = KINDS[kind]
    n = max(0, stream_len - extra)
    return mkfile(name, content(rnd, content_kind, n), ftype, dtype, rnd.choice([0x0E00, 0x3F00, 0x0000, 0xFFFF]) if kind in ("ML", "MLA") else 0,
                  rnd.choice([0x0E10, 0x0000, 0xFF00]) if kind in ("ML", "MLA") else 0, ext=ext if ext is not None else ("BIN" if kind in ("ML", "MLA") else "BAS"))
