"""Abstract statements <-> source text, and the adapter that drives cocoasm.Program and records
the observation the TLA+ certificate (spec/Asm.tla) judges.  This is the only file that touches the
assembler's internals (Statement.code_pkg); everything it reads is cross-checked against the public
listing / image so that a refactor shows up as a machinery failure rather than a silent pass."""
import os, sys, signal, traceback, re, random

REPO = os.environ.get("VERIF_REPO", "/repo")
if REPO not in sys.path:
    sys.path.insert(0, REPO)
os.environ.setdefault("COCOASM_VERIF", "1")

# ---------------------------------------------------------------- abstract syntax (mirrors spec/Asm.tla)
NONE = {"k": "none", "n": 0, "s": "", "sp": ""}


def num(n, sp="dec"):
    return {"k": "num", "n": n, "s": "", "sp": sp}


def sym(s):
    return {"k": "sym", "n": 0, "s": s, "sp": ""}


def ex(l, op="", r=None):
    return {"l": l, "op": op, "r": r or NONE}


def stmt(mn, form="inh", label="", **kw):
    d = {"label": label, "mn": mn, "form": form, "force": "", "reg": "X", "sub": "zero", "acc": "A", "ind": False,
         "regs": [], "r1": "D", "r2": "D", "expr": ex(NONE), "vals": [], "chars": []}
    d.update(kw)
    return d


PSEUDO_FORM = {"FCB": "fcb", "FDB": "fdb", "FCC": "fcc", "RMB": "rmb", "ORG": "org", "EQU": "equ", "SETDP": "setdp",
               "NAM": "nam", "END": "end", "INCLUDE": "include"}


# ---------------------------------------------------------------- rendering
def rterm(t):
    if t["k"] == "sym":
        return t["s"]
    if t["k"] != "num":
        return ""
    n, sp = t["n"], t["sp"]
    if n < 0:
        return str(n)
    if sp == "hex":
        return "$%X" % n
    if sp == "hex2":
        return "$%02X" % n
    if sp == "hex4":
        return "$%04X" % n
    if sp == "hex3":
        return "$%03X" % n
    if sp == "dec0":
        return "%04d" % n                      # leading zeros on a decimal constant
    if sp == "bin8":
        return "%" + format(n, "08b")
    if sp == "bin16":
        return "%" + format(n, "016b")
    if sp == "char":
        return "'" + chr(n)
    return str(n)


def rexpr(e):
    s = rterm(e["l"])
    if e["op"]:
        s += e["op"] + rterm(e["r"])
    return s


def roperand(s, delim='"', name="prog"):
    mn, f = s["mn"], s["form"]
    if mn == "FCC":
        tag = s["expr"]["l"]["sp"]
        delim = {"dq": '"', "slash": "/", "sq": "'", "bar": "|"}.get(tag, chr(int(tag[1:])) if tag[:1] == "d" and tag[1:].isdigit() else delim)
        return delim + "".join(chr(c) for c in s["chars"]) + delim
    if mn in ("FCB", "FDB"):
        return ",".join(rexpr(v) for v in s["vals"])
    if mn in ("RMB", "ORG", "EQU", "SETDP"):
        return rexpr(s["expr"])
    if mn == "NAM":
        return s.get("text", name)
    if mn == "INCLUDE":
        return s.get("text", "inc.asm")
    if mn == "END":
        return rexpr(s["expr"])
    if f == "inh":
        return ""
    if f == "imm":
        return "#" + rexpr(s["expr"])
    if f == "mem":
        return s["force"] + rexpr(s["expr"])
    if f == "extind":
        return "[" + rexpr(s["expr"]) + "]"
    if f == "pcr":
        op = rexpr(s["expr"]) + ",PCR"
        return "[" + op + "]" if s["ind"] else op
    if f == "rel":
        return rexpr(s["expr"])
    if f == "idx":
        r, sub = s["reg"], s["sub"]
        op = {"zero": "," + r, "inc1": "," + r + "+", "inc2": "," + r + "++", "dec1": ",-" + r, "dec2": ",--" + r,
              "dec1inc1": ",-" + r + "+", "dec2inc1": ",--" + r + "+", "dec1inc2": ",-" + r + "++", "dec2inc2": ",--" + r + "++", "inc3": "," + r + "+++", "dec3": ",---" + r}.get(sub)
        if sub == "acc":
            op = s["acc"] + "," + r
        if sub == "off":
            op = rexpr(s["expr"]) + "," + r
        return "[" + op + "]" if s["ind"] else op
    if f == "regs":
        return ",".join(s["regs"])
    if f == "pair":
        return s["r1"] + "," + s["r2"]
    raise ValueError("cannot render form %r" % f)


def render(s, ws1=" ", ws2=" ", comment=None, lower=False, delim='"'):
    """One source line, '\\n'-terminated, as readlines() would deliver it."""
    op = s.get("optext")
    if op is None:
        op = roperand(s, delim=delim)
    mn = s["mn"].lower() if lower else s["mn"]
    line = "%s%s%s%s%s" % (s["label"], ws1, mn, ws2, op)
    if comment is not None:
        line += " ; " + comment
    elif op == "":
        line = line.rstrip(" \t") + " "
    return line + "\n"


# ---------------------------------------------------------------- running the implementation
class Timeout(Exception):
    pass


def _alarm(*a):
    raise Timeout()


def site_of(e):
    tb = traceback.extract_tb(e.__traceback__)
    fr = [x for x in tb if x.filename.startswith(REPO + "/")]
    if not fr:
        return ""
    fr = fr[-1]
    return "%s:%s:%s" % (fr.filename[len(REPO) + 1:], fr.name, (fr.line or "").strip())


LIST_RE = re.compile(r"^\$([0-9A-Fa-f]+) ([0-9A-Fa-f ]{10}) ")


def _stmt_bytes(st):
    cp = st.code_pkg
    hx = cp.op_code.hex() + cp.post_byte.hex() + cp.additional.hex()
    odd = len(hx) % 2 == 1
    if odd:
        hx += "0"
    return [int(hx[j:j + 2], 16) for j in range(0, len(hx), 2)], odd, hx


def _fields(line):
    """(label, MNEMONIC, operand text) of a source line, the way the assembler's line regex splits it."""
    m = re.match(r"^([\w@]*)\s+(\w*)\s+(\S*)", line)
    if not m:
        return None
    return (m.group(1), m.group(2).upper(), m.group(3))


def assemble(lines, timeout=4, hooks=False):
    """Assemble `lines` (list of '\\n'-terminated strings) in this process.  Returns the raw observation:
    outcome in ok|parse|translation|internal|timeout, per-statement listing address and bytes, image, symbol table,
    origin, name, and for diagnostics the statement they name."""
    from cocoasm.program import Program
    from cocoasm.exceptions import ParseError, TranslationError
    rec = {"outcome": "ok", "exc": "", "site": "", "msg": "", "diag_named": False, "diag_fields": None, "obs": [], "image": [],
           "symtab": [], "origin": 0, "name": "", "nstmts": 0, "listing": [], "adapter": "", "hooks": [], "stmts": []}
    given = list(lines)
    old = signal.signal(signal.SIGALRM, _alarm)
    signal.alarm(timeout)
    try:
        from cocoasm import _verif
        _verif.reset()
        p = Program()
        p.process(lines)
        rec["nstmts"] = len(p.statements)
        image = list(p.get_binary_array())
        listing = p.get_statements()
        symlines = p.get_symbol_table()
        rec["image"] = image
        rec["listing"] = listing
        for k, st in enumerate(p.statements):
            b, odd, hx = _stmt_bytes(st)
            m = LIST_RE.match(listing[k])
            if not m:
                rec["adapter"] = "listing line %d unparsable" % k
                addr = st.code_pkg.address.int
            else:
                addr = int(m.group(1), 16)
                if m.group(2).strip().upper() != hx[:10].upper() and not odd:
                    rec["adapter"] = "listing hex column disagrees with code package at %d" % k
                if addr != (st.code_pkg.address.int & 0xFFFFFFFF):
                    rec["adapter"] = "listing address disagrees with code package at %d" % k
            rec["obs"].append({"addr": addr, "bytes": b})
            rec["stmts"].append([st.label or "", st.mnemonic or ""])
        for l in symlines:
            parts = l.split()
            try:
                if len(parts) == 2 and parts[0].startswith("$"):
                    rec["symtab"].append({"s": parts[1], "v": int(parts[0][1:], 16)})
                else:
                    rec["symtab"].append({"s": parts[-1] if parts else l, "v": -1})
            except ValueError:
                rec["symtab"].append({"s": parts[-1], "v": -1})
        oh = p.origin.hex()
        rec["origin"] = int(oh, 16) if oh else 0
        rec["name"] = p.name or ""
    except ParseError as e:
        rec["outcome"] = "parse"
        rec["msg"] = str(e.value)[:120]
        try:
            s = str(e.statement)
            rec["diag_named"] = bool(s.strip())
            rec["diag_fields"] = _fields(e.statement) if isinstance(e.statement, str) else _diag_fields(e.statement)
        except Exception:
            rec["diag_named"] = False
    except TranslationError as e:
        rec["outcome"] = "translation"
        rec["msg"] = str(e.value)[:120]
        try:
            s = str(e.statement)
            rec["diag_named"] = bool(s.strip())
            rec["diag_fields"] = _diag_fields(e.statement)
        except Exception:
            rec["diag_named"] = False
    except Timeout:
        rec["outcome"] = "timeout"
    except RecursionError as e:
        rec["outcome"] = "internal"
        rec["exc"] = "RecursionError"
        rec["site"] = site_of(e)
    except BaseException as e:
        rec["outcome"] = "internal"
        rec["exc"] = type(e).__name__
        rec["site"] = site_of(e)
        rec["msg"] = str(e)[:120]
    finally:
        signal.alarm(0)
        signal.signal(signal.SIGALRM, old)
    if hooks:
        try:
            from cocoasm import _verif
            rec["hooks"] = _verif.drain()[:400]          # a run that was cut off may have logged millions of events
        except Exception:
            rec["hooks"] = []
    rec["input_intact"] = (list(lines) == given)
    return rec


def _diag_fields(st):
    if isinstance(st, str):
        return _fields(st)
    try:
        op = st.original_operand.operand_string if st.original_operand is not None else ""
    except Exception:
        op = ""
    return (st.label or "", st.mnemonic or "", op)


def trace_of(tid, prog, lines, rec):
    """Uniform-schema trace record for spec/Tr_Asm.tla."""
    n = len(prog)
    outcome = rec["outcome"]
    if outcome == "ok" and prog and rec["nstmts"] != n:       # (free text has no abstract program: nothing to count against)
        outcome = "stmtcount"
    diag_k = 0
    if rec["diag_fields"]:
        for k, l in enumerate(lines):
            if _fields(l) == tuple(rec["diag_fields"]):
                diag_k = k + 1
                break
    return {"id": tid, "prog": prog, "obs": rec["obs"] if outcome == "ok" else [], "outcome": outcome, "diag_k": diag_k,
            "diag_named": bool(rec["diag_named"]), "image": rec["image"] if outcome == "ok" else [],
            "symtab": rec["symtab"] if outcome == "ok" else [], "origin": rec["origin"]}
