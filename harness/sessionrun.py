"""Run a history of assemblies in THIS interpreter and report every output in full (used warm, in a pool worker, and
as a fresh subprocess under a chosen PYTHONHASHSEED)."""
import sys, json, copy


def run_history(pool, hist, cfg, files=None):
    import os, tempfile, shutil
    if files:
        W = tempfile.mkdtemp(prefix="sess", dir=os.environ.get("VERIF_SCRATCH"))
        cwd = os.getcwd()
        try:
            for fn, text in files.items():
                open(os.path.join(W, fn), "w").write(text)
            os.chdir(W)
            return run_history(pool, hist, cfg)
        finally:
            os.chdir(cwd)
            shutil.rmtree(W, ignore_errors=True)
    from harness import asmio
    events = []
    for s in hist:
        lines = list(pool[s - 1])
        given = copy.deepcopy(lines)
        rec = asmio.assemble(lines)
        out = {"outcome": rec["outcome"], "image": rec["image"], "listing": rec["listing"], "symtab": [[x["s"], x["v"]] for x in rec["symtab"]],
               "origin": rec["origin"], "name": rec["name"], "msg": rec["msg"], "exc": rec["exc"]}
        events.append({"src": s, "cfg": cfg, "out": out, "intact": lines == given})
    return events


def main():
    job = json.loads(sys.stdin.read())
    sys.stdout.write(json.dumps(run_history(job["pool"], job["hist"], job["cfg"], job.get("files"))))


if __name__ == "__main__":
    main()
