"""Seeded random whole programs over the class lattice (all operand forms, labels on every statement,
references before/after definition, duplicate / undefined labels, ORG placements)."""
import random
from harness.asmio import stmt, ex, sym, num, NONE
from harness import asmgen

ORGS = [None, 0, 0x10, 0xFF, 0x100, 0x0E00, 0x4000, 0xFFF0 - 2000]


def lit(rnd, vals):
    v = rnd.choice(vals)
    return num(v, rnd.choice(asmgen.spellings_for(v, allow_char=False)))


def gen_program(rnd, nmin=3, nmax=12, faults=True, all_labelled=False, pcr=True, data=True):
    n = rnd.randint(nmin, nmax)
    nlab = n if all_labelled else rnd.randint(1, max(1, min(6, n)))
    labels = ["L%d" % k for k in range(nlab)]
    equs = ["K%d" % k for k in range(rnd.randint(0, 2))]
    equ_defs = [stmt("EQU", "equ", label=k, expr=ex(lit(rnd, [5, 0x10, 0xFF, 0x100, 0x1234]))) for k in equs]
    pre = [e for e in equ_defs if rnd.random() < 0.5]
    post = [e for e in equ_defs if e not in pre]

    def ref():
        c = rnd.random()
        if c < 0.55:
            return ex(sym(rnd.choice(labels)))
        if c < 0.75:
            return ex(sym(rnd.choice(labels)), rnd.choice("+-"), num(rnd.choice([1, 2, 5])))
        if c < 0.85 and equs:
            return ex(sym(rnd.choice(equs)))
        return ex(lit(rnd, [0, 5, 0x7F, 0x80, 0xFF, 0x100, 0x1234, 0xFFFF]))
    body = []
    for k in range(n):
        c = rnd.random()
        if c < 0.12:
            s = stmt(rnd.choice(["NOP", "RTS", "CLRA", "SWI2", "MUL", "SWI", "SYNC", "SEX", "ABX"]))
        elif c < 0.22:
            s = stmt(rnd.choice(["LDA", "CMPB", "ANDCC", "ORCC", "EORA"]), "imm", expr=ex(lit(rnd, [0, 1, 0x7F, 0xFF, -1, -128])))
        elif c < 0.32:
            s = stmt(rnd.choice(["LDX", "LDD", "CMPY", "LDS", "ADDD", "CMPU"]), "imm", expr=ref())
        elif c < 0.45:
            s = stmt(rnd.choice(["JMP", "JSR", "STA", "LDD", "STY", "INC", "LDB", "NEG", "TST"]), "mem", expr=ref(), force=rnd.choice(["", "", "", ">"]))
        elif c < 0.50:
            s = stmt(rnd.choice(["JMP", "LDA", "STX"]), "extind", expr=ex(sym(rnd.choice(labels))) if rnd.random() < 0.6 else ex(lit(rnd, [0, 0x10, 0x1234])))
        elif c < 0.60:
            s = stmt(rnd.choice(["LDA", "STB", "LEAX", "LDY", "STD"]), "idx", reg=rnd.choice("XYUS"), sub=rnd.choice(["zero", "inc1", "inc2", "dec1", "dec2", "acc"]), acc=rnd.choice("ABD"))
        elif c < 0.68:
            s = stmt(rnd.choice(["LDA", "STB", "LEAY", "LDX", "CMPD"]), "idx", reg=rnd.choice("XYUS"), sub="off", ind=rnd.random() < 0.3,
                     expr=ex(lit(rnd, [1, 15, 16, 100, 127, 128, 300, -1, -16, -17, -100, -128, -129, -1000])))
        elif c < 0.76 and pcr:
            s = stmt(rnd.choice(["LDA", "LEAX", "STY", "LDD", "JSR"]), "pcr", ind=rnd.random() < 0.3, expr=ex(sym(rnd.choice(labels))))
        elif c < 0.84:
            s = stmt(rnd.choice(["BRA", "BNE", "BSR", "LBRA", "LBEQ", "LBSR", "BHS", "LBLO"]), "rel", expr=ex(sym(rnd.choice(labels))))
        elif c < 0.88 and data:
            s = stmt("FCB", "fcb", vals=[ex(lit(rnd, [0, 1, 0x7F, 0xFF, -1])) for _ in range(rnd.randint(1, 4))])
        elif c < 0.92 and data:
            s = stmt("FDB", "fdb", vals=[ex(lit(rnd, [0, 1, 0x1234, 0xFFFF, -2])) for _ in range(rnd.randint(1, 3))])
        elif c < 0.95 and data:
            s = stmt("FCC", "fcc", chars=[ord(ch) for ch in rnd.choice(["HELLO", "A", "a1B2", "X,Y", "two words", "a;b", "tab\there", "\t"])], expr=ex({"k": "none", "n": 34, "s": "", "sp": "dq"}))
        elif c < 0.98 and data:
            s = stmt("RMB", "rmb", expr=ex(lit(rnd, [0, 1, 2, 5, 40])))
        else:
            s = stmt(rnd.choice(["PSHS", "PULS", "PSHU", "PULU"]), "regs", regs=rnd.sample(["A", "B", "X", "Y", "PC", "CC", "DP"], rnd.randint(1, 4)))
        body.append(s)
    pos = list(range(len(body))) if all_labelled else rnd.sample(range(len(body)), min(len(labels), len(body)))
    for l, p in zip(labels, pos):
        body[p]["label"] = l
    prog = []
    if rnd.random() < 0.3:
        prog.append(stmt("NAM", "nam"))
    prog += pre
    org = rnd.choice(ORGS)
    kind = "plain"
    if org is not None:
        o = stmt("ORG", "org", expr=ex(num(org, "hex4")))
        r = rnd.random()
        if not faults or r < 0.85:
            prog.append(o)
            prog += body
        elif r < 0.93:                       # code before ORG
            kind = "late-org"
            k = rnd.randint(1, len(body))
            prog += body[:k] + [o] + body[k:]
        else:                                # two ORGs
            kind = "two-orgs"
            k = rnd.randint(1, len(body))
            prog += [o] + body[:k] + [stmt("ORG", "org", expr=ex(num((org + 0x800) & 0xFFFF, "hex4")))] + body[k:]
    else:
        prog += body
    prog += post
    if rnd.random() < 0.25:
        prog.append(stmt("END", "end", expr=ex(sym(labels[0])) if rnd.random() < 0.5 else ex(NONE)))
    if faults:
        r = rnd.random()
        defined = [s["label"] for s in prog if s["label"]]
        if r < 0.05 and defined:
            tgt = [s for s in prog if not s["label"] and s["mn"] not in ("ORG", "NAM", "END", "EQU")]
            if tgt:
                tgt[0]["label"] = rnd.choice(defined)
                kind = "dup"
        elif r < 0.10:
            cands = [s for s in prog if s["form"] in ("mem", "rel", "pcr") and s["expr"]["l"]["k"] == "sym"]
            if cands:
                rnd.choice(cands)["expr"]["l"]["s"] = "NOSUCH"
                kind = "undef"
    return prog, kind
