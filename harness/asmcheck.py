"""Shared machinery for the assembler properties (C01-C05, C12, C13): run suites of abstract programs
through the real assembler, have TLC judge every recorded assembly with the certificate of
spec/Asm.tla, attribute failing clauses to the property that owns them."""
import time, json, random
from harness import tlc, asmio, asmrun

NPROC_JVM = 6

DATA_FORMS = {"fcb", "fdb", "fcc", "rmb"}
PSEUDO_FORMS = DATA_FORMS | {"org", "equ", "setdp", "nam", "end", "include"}


def owners(item):
    """Which properties own a failing clause (DESIGN.md, clause ownership table)."""
    c = item["clause"]
    cls = item.get("class") or {}
    form, src, vcl = cls.get("form", ""), cls.get("valsrc", ""), cls.get("valclass", "")
    labelref = "label" in src
    if c in ("reserved",):
        return {"C02", "C12"}
    if c in ("placed", "org", "first", "image", "symtab", "symextra", "dup", "undef"):
        return {"C02"} | ({"C04"} if c == "symtab" and form == "equ" else set())
    if c == "decodes":
        return {"C12", "C01"}
    if c == "names":
        return {"C12"}
    if c in ("outcome", "diagnames"):
        return {"C13"}
    if c in ("enc", "accepted"):
        if form in DATA_FORMS or form in PSEUDO_FORMS:
            o = {"C05"}
            if src.startswith("expr") or src.startswith("equ") or labelref:
                o.add("C04")
            return o
        if form == "rel" or (form == "pcr" and labelref):
            return {"C03"}
        if form == "pcr":
            return {"C03", "C01"} | ({"C04"} if src.startswith("expr") or src.startswith("equ") else set())
        o = set()
        if src == "lit" or src == "" or src.startswith("equ") or labelref:
            o.add("C01")
        if src.startswith("expr") or src.startswith("equ") or labelref:
            o.add("C04")
        return o or {"C01"}
    if c == "shouldreject":
        if vcl == "divzero":
            return {"C04"}
        if form in DATA_FORMS or form in PSEUDO_FORMS:
            return {"C05"}
        if form == "rel":
            return {"C03"}
        return {"C12"}
    return set()


def class_key(cls):
    return "|".join(str(cls.get(k, "")) for k in ("mnclass", "mn", "form", "sub", "ind", "force", "reg", "valclass", "valsrc", "sp", "nvals", "nchars"))


def coarse_key(cls):
    return "|".join(str(cls.get(k, "")) for k in ("mnclass", "form", "sub", "ind", "force", "valclass", "valsrc", "sp", "nvals", "strclass", "delim"))


class Case(object):
    __slots__ = ("prog", "lines", "focus", "tag")

    def __init__(self, prog, lines=None, focus=0, tag=""):
        self.prog = prog
        self.lines = lines if lines is not None else [asmio.render(s) for s in prog]
        self.focus = focus
        self.tag = tag


def framed(s, tag="", **rk):
    prog = asmrun.frame(s)
    lines = [asmio.render(prog[0]), asmio.render(s, **rk), asmio.render(prog[2])]
    return Case(prog, lines, focus=2, tag=tag)


def run_suite(ctx, name, cases, report_all_classes=True, owned_only=True, hooks=False):
    """Assemble every case, judge with Tr_Asm, report items owned by ctx.prop.  Returns verdicts (by id)."""
    t0 = time.time()
    triples = [(k, c.prog, c.lines) for k, c in enumerate(cases)]
    traces, extras = asmrun.run(triples, hooks=hooks)
    if len(traces) < len(cases):
        ctx.notes.append("suite %s cut short after repeated watchdog timeouts: %d of %d cases run" % (name, len(traces), len(cases)))
        cases = cases[:len(traces)]
    for t, c in zip(traces, cases):
        t["focus"] = c.focus
    # the listing (public API) and the per-statement bytes read through the adapter must tell the same story; a disagreement
    # is a fault of the listing the user sees (owned by C02), reported per case - the case itself is not judged further
    for t in traces:
        msg = extras[t["id"]]["adapter"]
        if msg:
            t["outcome"] = "ok-listing-mismatch"
            if ctx.prop == "C02":
                ctx.report({"clause": "listing", "class": {"form": "listing"}, "symptom": {"why": msg.rsplit(" at ", 1)[0]}},
                           {"kind": "asm", "lines": cases[t["id"]].lines, "what": msg})
    bad_render = [t["id"] for t in traces if t["outcome"] == "stmtcount" and cases[t["id"]].prog]
    if bad_render:
        k = bad_render[0]
        raise tlc.MachineryError("renderer/parser statement count mismatch for %r" % (cases[k].lines,))
    verd, st = tlc.bulk("Tr_Asm", traces, nproc=NPROC_JVM)
    nviol = 0
    for t in traces:
        v = verd[t["id"]]
        c = cases[t["id"]]
        if c.focus:
            ctx.add_class(coarse_key(v["fclass"]))
        mustrej = {it["k"] for it in v["items"] if it["clause"] == "shouldreject"}
        for it in v["items"]:
            own = owners(it)
            if it["k"] in mustrej and it["clause"] in ("enc", "decodes", "reserved", "placed"):
                own = {"C12"} if it["clause"] != "placed" else set()      # consequences of accepting what must be rejected
            if owned_only and ctx.prop not in own:
                continue
            x = extras[t["id"]]
            item = {"clause": it["clause"], "class": it["class"], "symptom": dict(it["symptom"], site=x["site"], exc=x["exc"])}
            if it["clause"] in ("accepted", "outcome", "diagnames"):
                import re as _re
                item["symptom"]["why"] = _re.sub(r"\[[^\]]*\]", "[..]", x["msg"])[:70] if it["clause"] == "accepted" else t["outcome"]
            replay = {"kind": "asm", "lines": c.lines, "prog": c.prog, "focus": c.focus, "stmt_index": it["k"], "outcome": t["outcome"], "msg": x["msg"],
                      "obs": t["obs"][it["k"] - 1] if t["obs"] and 0 < it["k"] <= len(t["obs"]) else None, "suite": name, "tag": c.tag}
            if ctx.report(item, replay) == "violation":
                nviol += 1
    if cases:
        k = len(cases) // 2
        ctx.sample({"suite": name, "lines": cases[k].lines, "outcome": traces[k]["outcome"],
                    "obs": traces[k]["obs"][:4], "items": verd[k]["items"][:3]})
    outcomes = {}
    for t in traces:
        outcomes[t["outcome"]] = outcomes.get(t["outcome"], 0) + 1
    ctx.add_suite(name, len(cases), len(traces), time.time() - t0, {"outcomes": outcomes, "violating_items": nviol})
    return traces, verd, extras


# ---------------------------------------------------------------- replay of one stored case
def replay_case(ctx, rp):
    """Re-run one stored case against the current tree: print what the implementation does now and JUDGE it again with the
    specification (same suite code as the check); returns the exit status (1 = the violation is still there, 0 = gone / excused)."""
    c = Case(rp.get("prog") or [], rp["lines"], focus=rp.get("focus", 0))
    rec = asmio.assemble(list(c.lines))
    print(json.dumps({k: rec[k] for k in ("outcome", "msg", "exc", "site", "obs", "image", "symtab", "origin")}, indent=1))
    if rp.get("kind") != "asm":
        return 0
    if c.prog:
        run_suite(ctx, "replay", [c])
    else:
        run_text_suite(ctx, "replay", [c.lines])
    return ctx.finish(write_evidence=False)


def run_text_suite(ctx, name, programs):
    """programs: list of line lists with no abstract form.  For every ACCEPTED program the statements are judged as "raw"
    (label and mnemonic as the assembler parsed them): bytes decode as one instruction of that mnemonic, addresses advance by the
    bytes emitted, image = concatenation placed at the origin, labels in the symbol table name their statement's address."""
    t0 = time.time()
    triples = [(k, [], lines) for k, lines in enumerate(programs)]
    traces, extras = asmrun.run(triples)
    programs = programs[:len(traces)]
    for t in traces:
        t["focus"] = 0
        x = extras[t["id"]]
        if t["outcome"] == "stmtcount":
            t["outcome"] = "ok"
        if t["outcome"] == "ok" and not x["adapter"]:
            t["prog"] = [asmio.stmt(mn, "raw", label=lb) for lb, mn in x["stmts"]]
            rec_obs = t["obs"]
            if len(rec_obs) != len(t["prog"]):
                t["prog"], t["obs"], t["image"], t["symtab"] = [], [], [], []
        else:
            t["obs"], t["image"], t["symtab"] = [], [], []
            if x["adapter"] and t["outcome"] == "ok" and ctx.prop == "C02":
                # the listing and the statement's bytes / address disagree: a fault of the listing (C02), nothing else is judged for this text
                import re as _re
                why = _re.sub(r"\d+", "N", x["adapter"])
                ctx.report({"clause": "listing", "class": {"form": "raw", "text": "free"}, "symptom": {"why": why}},
                           {"kind": "asm", "lines": programs[t["id"]], "what": x["adapter"], "suite": name})
    verd, st = tlc.bulk("Tr_Asm", traces, nproc=NPROC_JVM)
    outcomes, nviol = {}, 0
    for t in traces:
        outcomes[t["outcome"]] = outcomes.get(t["outcome"], 0) + 1
        x = extras[t["id"]]
        for it in verd[t["id"]]["items"]:
            if ctx.prop not in owners(it):
                continue
            cls = dict(it["class"], form="raw", text="free")
            item = {"clause": it["clause"], "class": cls, "symptom": dict(it["symptom"], site=x["site"], exc=x["exc"])}
            if it["clause"] in ("outcome", "diagnames"):
                item["symptom"]["why"] = t["outcome"]
            k = it["k"]
            if ctx.report(item, {"kind": "asm", "lines": programs[t["id"]], "stmt_index": k, "outcome": t["outcome"], "msg": x["msg"],
                                 "obs": t["obs"][k - 1] if t["obs"] and 0 < k <= len(t["obs"]) else None, "suite": name}) == "violation":
                nviol += 1
        if not x["input_intact"] and ctx.prop == "C17":
            ctx.report({"clause": "input-modified", "class": {"form": "raw"}, "symptom": {}}, {"kind": "asm", "lines": programs[t["id"]]})
        ctx.add_class("text|%s|%s" % (t["outcome"], (x["site"] or x["msg"])[:30]))
    ctx.add_suite(name, len(programs), len(traces), time.time() - t0, {"outcomes": outcomes, "violating_items": nviol})
    if programs:
        ctx.sample({"suite": name, "lines": programs[len(programs) // 2], "outcome": traces[len(programs) // 2]["outcome"]})


def run_pass_traces(ctx, name, cases):
    """Assemble with the pass-boundary hooks on and validate the event sequence of every assembly against AsmPasses (Tr_Passes)."""
    t0 = time.time()
    triples = [(k, c.prog, c.lines) for k, c in enumerate(cases)]
    traces, extras = asmrun.run(triples, hooks=True)
    cases = cases[:len(traces)]
    recs = []
    for t, c in zip(traces, cases):
        evs = []
        for e in extras[t["id"]]["hooks"]:
            if e["ev"] not in ("Collected", "Translated", "SizeDecide", "Sweep", "Laid", "Fixed", "Backpatched"):
                continue
            e = dict(e)
            if isinstance(e.get("fixed"), list):
                e["fixedv"] = e.pop("fixed")
            evs.append(e)
        facts = {"n": len(c.prog), "mn": [s["mn"] for s in c.prog], "lab": [s["label"] for s in c.prog],
                 "orgv": [s["expr"]["l"]["n"] if s["mn"] == "ORG" and s["expr"]["l"]["k"] == "num" else -1 for s in c.prog]}
        recs.append({"id": t["id"], "p": facts, "events": evs, "accepted": t["outcome"] == "ok"})
    verd, st = tlc.bulk("Tr_Passes", recs, nproc=NPROC_JVM)
    nv = nohook = 0
    for r, c in zip(recs, cases):
        v = verd[r["id"]]
        if r["accepted"] and not r["events"]:
            nohook += 1
            continue
        ctx.add_class("passes|%d|%s" % (v["stage"], "ok" if r["accepted"] else "rejected"))
        if not v["ok"]:
            item = {"clause": "pass-" + v["why"], "class": {"form": "passes", "stage": v["stage"]}, "symptom": {"at": v["at"]}}
            if ctx.report(item, {"kind": "asm", "lines": c.lines, "events": r["events"][:12], "verdict": v}) == "violation":
                nv += 1
    ctx.add_suite(name, len(recs), len(recs), time.time() - t0, {"violating_items": nv, "accepted_traces_without_hook_events": nohook})
    if nohook:
        raise tlc.MachineryError("%s: %d of %d accepted assemblies carried no pass events: the binding of AsmPasses to translate_statements is gone "
                                 "(hooks removed or COCOASM_VERIF not honoured)" % (name, nohook, len(recs)))
