"""Check context: collects what a run covered, matches failures against known findings,
writes evidence and replay files, and turns the result into the exit code / stdout contract."""
import os, sys, json, time, hashlib, fnmatch

VERIF = os.path.dirname(os.path.dirname(os.path.abspath(__file__)))
OUT = os.path.join(VERIF, "out")
KF_PATH = os.path.join(VERIF, "known_findings.json")


def _match_value(pat, val):
    if pat == "*" or pat is None:
        return True
    if isinstance(pat, list):
        return any(_match_value(p, val) for p in pat)
    if isinstance(pat, dict):
        if "min" in pat or "max" in pat:
            try:
                return (("min" not in pat) or val >= pat["min"]) and (("max" not in pat) or val <= pat["max"])
            except TypeError:
                return False
        if "glob" in pat:
            return isinstance(val, str) and fnmatch.fnmatchcase(val, pat["glob"])
        if "not" in pat:
            return not _match_value(pat["not"], val)
        return False
    return pat == val


def _match_dict(pat, d):
    for k, p in (pat or {}).items():
        if not _match_value(p, (d or {}).get(k)):
            return False
    return True


class Findings(object):
    def __init__(self, path=KF_PATH):
        self.entries = []
        if os.path.exists(path):
            self.entries = json.load(open(path)).get("findings", [])

    def match(self, prop, item):
        """item: {"clause", "class":{}, "symptom":{}}.  Returns the open entry that excuses it, or None."""
        for e in self.entries:
            props = e.get("property")
            props = props if isinstance(props, list) else [props]
            if prop not in props or e.get("status", "open") != "open":
                continue
            if item["clause"] not in e.get("clauses", []):
                continue
            if not _match_dict(e.get("class"), item.get("class")):
                continue
            if not _match_dict(e.get("symptom"), item.get("symptom")):
                continue
            return e
        return None


class FailFast(Exception):
    pass


class Ctx(object):
    def __init__(self, prop, tier, seed, level="model_checking"):
        self.prop, self.tier, self.seed, self.level = prop, tier, int(seed), level
        self.t0 = time.time()
        self.findings = Findings()
        self.known_hit = {}          # entry id -> count
        self.violations = []         # (replay path, summary)
        self.cov = {"evaluations": 0, "distinct_nontrivial": 0, "rule": "", "samples": [], "states": 0, "transitions": 0,
                    "traces_validated_against_impl": 0, "exhaustive": False, "suites": {}, "models": {}, "known_findings_hit": {}}
        self.assumptions = []
        self.classes = set()
        self.notes = []
        self.max_violation_files = 60       # overall; at most 4 replay files per failing clause so that every clause shows
        self.per_clause = {}
        self.all_items = []

    # ---- coverage accounting
    def add_model(self, name, r, extra=None):
        """Record a TLC model-checking run (TLCResult)."""
        self.cov["states"] += r.distinct
        self.cov["transitions"] += r.generated
        d = {"distinct_states": r.distinct, "states_generated": r.generated, "depth": r.depth, "wall_s": round(r.wall, 2)}
        if r.coverage:
            never = sorted(a for a, (dd, g) in r.coverage.items() if g == 0)
            d["actions_never_taken"] = never
        if extra:
            d.update(extra)
        self.cov["models"][name] = d

    def add_suite(self, name, n_cases, n_traces, wall=None, extra=None):
        self.cov["evaluations"] += n_cases
        self.cov["traces_validated_against_impl"] += n_traces
        d = {"cases": n_cases, "traces_judged_by_tlc": n_traces}
        if wall is not None:
            d["wall_s"] = round(wall, 2)
        if extra:
            d.update(extra)
        self.cov["suites"][name] = d

    def add_class(self, key):
        self.classes.add(key if isinstance(key, str) else json.dumps(key, sort_keys=True))

    def sample(self, s):
        def trim(x):
            if isinstance(x, list):
                return [trim(y) for y in x[:12]] + (["...(%d more)" % (len(x) - 12)] if len(x) > 12 else [])
            if isinstance(x, dict):
                return {k: trim(v) for k, v in x.items()}
            return x
        if len(self.cov["samples"]) < 6:
            self.cov["samples"].append(trim(s))

    # ---- failures
    def report(self, item, replay):
        """A failing item owned by this property.  `replay`: JSON-able dict that reproduces it."""
        e = self.findings.match(self.prop, item)
        if len(self.all_items) < 300000:          # (the census of a thorough run is a sample; the counts are kept in full)
            self.all_items.append({"item": item, "lines": replay.get("lines"), "k": replay.get("stmt_index"), "known": e["id"] if e else None})
        if e is not None:
            self.known_hit.setdefault(e["id"], [0, e])[0] += 1
            return "known"
        cl = str(item.get("clause"))
        self.per_clause[cl] = self.per_clause.get(cl, 0) + 1
        if self.per_clause[cl] <= 4 and len(set(p for p, _ in self.violations)) < self.max_violation_files:
            blob = json.dumps({"property": self.prop, "item": item, "replay": replay}, sort_keys=True, indent=1)
            h = hashlib.sha1(blob.encode()).hexdigest()[:12]
            d = os.path.join(OUT, "replay", self.prop)
            os.makedirs(d, exist_ok=True)
            path = os.path.join(d, h + ".json")
            with open(path, "w") as f:
                f.write(blob)
            self.violations.append((path, item))
        else:
            self.violations.append((self.violations[0][0], item))
        if os.environ.get("VERIF_FAILFAST") == "1":
            raise FailFast()
        return "violation"

    # ---- end of run
    def finish(self, write_evidence=True):
        wall = time.time() - self.t0
        self.cov["distinct_nontrivial"] = len(self.classes)
        self.cov["known_findings_hit"] = {k: v[0] for k, v in self.known_hit.items()}
        if not self.cov["samples"]:
            self.cov["samples"] = ["(no sample recorded)"]
        ev = {"property_id": self.prop, "tier": self.tier, "seed": self.seed, "level": self.level, "coverage": self.cov,
              "assumptions": self.assumptions, "wall_s": round(wall, 2), "violations": len(self.violations)}
        if write_evidence:                      # (a --replay of one stored case judges it again but leaves the evidence of the last full run alone)
            os.makedirs(os.path.join(VERIF, "evidence"), exist_ok=True)
            with open(os.path.join(VERIF, "evidence", self.prop + ".json"), "w") as f:
                json.dump(ev, f, indent=1, sort_keys=True)
            os.makedirs(os.path.join(OUT, "census"), exist_ok=True)
            with open(os.path.join(OUT, "census", "%s-%s-%d.json" % (self.prop, self.tier, self.seed)), "w") as f:
                json.dump(self.all_items, f)
        for k, (cnt, e) in sorted(self.known_hit.items()):
            print("KNOWN-FINDING: property=%s %s [%s, %d cases]" % (self.prop, e.get("what", ""), k, cnt))
        seen = set()
        for path, item in self.violations:
            if path in seen:
                continue
            seen.add(path)
            print("VIOLATION property=%s replay=%s" % (self.prop, path))
            print("  clause=%s class=%s symptom=%s" % (item.get("clause"), json.dumps(item.get("class"), sort_keys=True), json.dumps(item.get("symptom"), sort_keys=True)))
        print("%s %s: %d evaluations, %d traces judged by TLC, %d model states, %d classes, %d violations, %d known-finding cases, %.1fs" % (
            self.prop, self.tier, self.cov["evaluations"], self.cov["traces_validated_against_impl"], self.cov["states"],
            len(self.classes), len(self.violations), sum(v[0] for v in self.known_hit.values()), wall))
        return 1 if self.violations else 0
