"""Generators of abstract programs.  The enumerated spaces come from TLC (spec/Gen_*.tla); this module
only renders them in frames / symbol variants and draws seeded random members of the same class lattice."""
import copy, random
from harness import tlc, asmio, asmrun
from harness.asmio import num, sym, ex, stmt, NONE
from harness.asmcheck import Case, framed

VALCLASS_REP = {
    "0": (0, 0), "1..15": (1, 15), "16..127": (16, 127), "128..255": (128, 255), "256..4095": (256, 4095),
    "4096..32767": (4096, 32767), "32768..65535": (32768, 65535), "-1..-16": (-16, -1), "-17..-128": (-128, -17),
    "-129..-32768": (-32768, -129)}


def table(tier, what="valid"):
    recs, wall = tlc.cached_export_parts("Gen_C01", 8, env={"TIER": tier, "WHAT": what})
    return recs, wall


def uses_value(s):
    return s["form"] in ("imm", "mem", "extind", "pcr") or (s["form"] == "idx" and s["sub"] == "off")


def spellings_for(v, rnd=None, allow_char=True):
    if v < 0:
        return ["dec"]
    sp = ["dec", "hex", "hex4", "bin16"]
    if v <= 255:
        sp += ["hex2", "bin8"]
    if v <= 0xFFF:
        sp += ["hex3"]
    if v <= 9999:
        sp += ["dec0"]
    if allow_char and (48 <= v <= 57 or 65 <= v <= 90 or 97 <= v <= 122 or v in (33, 34, 35, 36, 37, 38, 39, 40, 41, 42, 43, 45, 46, 47, 58, 60, 61, 62, 63, 94)):
        sp.append("char")
    return sp


def with_expr(s, e):
    t = copy.deepcopy(s)
    t["expr"] = e
    return t


def via_equ(s, before=True, equ_sp=None):
    """The statement's literal operand reached through an EQU defined before / after its use."""
    t = s["expr"]["l"]
    e = stmt("EQU", "equ", label="V", expr=ex(num(t["n"], equ_sp or t["sp"])))
    fr = asmrun.frame(with_expr(s, ex(sym("V"))))
    if before:
        return Case([e] + fr, focus=3, tag="equ-before")
    return Case(fr + [e], focus=2, tag="equ-after")


def via_label(s, before=True):
    """The operand is a label whose address is (about) the literal's value; the judge computes the exact address."""
    v = s["expr"]["l"]["n"]
    base = max(0, min(v, 65000))
    org = stmt("ORG", "org", expr=ex(num(base, "hex4")))
    tgt = stmt("NOP", label="T")
    fr = asmrun.frame(with_expr(s, ex(sym("T"))))
    if before:
        return Case([org, tgt] + fr, focus=4, tag="label-before")
    return Case([org] + fr + [tgt], focus=3, tag="label-after")


def random_value(rnd, cls=None):
    cls = cls or rnd.choice(list(VALCLASS_REP))
    lo, hi = VALCLASS_REP[cls]
    r = rnd.random()
    if r < 0.25:
        return lo
    if r < 0.5:
        return hi
    return rnd.randint(lo, hi)


def random_variant(rnd, s):
    """Same structure, value redrawn inside a random class, random spelling, random spacing/case/comment."""
    t = copy.deepcopy(s)
    if uses_value(t):
        v = random_value(rnd)
        t["expr"] = ex(num(v, rnd.choice(spellings_for(v))))
    rk = {"ws1": rnd.choice([" ", "  ", "\t", " \t "]), "ws2": rnd.choice([" ", "   ", "\t"]),
          "lower": rnd.random() < 0.3, "comment": rnd.choice([None, None, "note", "x,X #5 'q", ""])}
    return t, rk


def every_cell(stmts, rnd, k=2):
    """k statements of EVERY cell (mnemonic x form x sub-form x indirect x forced mode) of the exported table, whatever else a run samples"""
    percell = {}
    for st in stmts:
        percell.setdefault((st["mn"], st["form"], st["sub"] if st["form"] == "idx" else "", st["ind"], st["force"]), []).append(st)
    return [x for v in percell.values() for x in (v if len(v) <= k else rnd.sample(v, k))]
