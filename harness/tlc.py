"""Running TLC from the harness: model checking, case export, bulk trace judging.

All scratch (metadir, java tmpdir, trace/verdict files) lives under /verif/out and is removed
after each run.  A TLC crash / timeout is a machinery failure (MachineryError), never a pass.
"""
import os, re, json, shutil, subprocess, time, uuid, threading
from concurrent.futures import ThreadPoolExecutor

VERIF = os.path.dirname(os.path.dirname(os.path.abspath(__file__)))
SPEC = os.path.join(VERIF, "spec")
OUT = os.path.join(VERIF, "out")
JARS = "/opt/veriftools/tla/tla2tools.jar:/opt/veriftools/tla/CommunityModules-deps.jar"


class MachineryError(Exception):
    pass


class TLCResult(object):
    def __init__(self, rc, out, wall):
        self.rc = rc
        self.out = out
        self.wall = wall
        self.generated = 0
        self.distinct = 0
        self.depth = 0
        m = re.findall(r"(\d+) states generated, (\d+) distinct states found", out)
        if m:
            self.generated, self.distinct = int(m[-1][0]), int(m[-1][1])
        m = re.findall(r"depth of the complete state graph search is (\d+)", out)
        if m:
            self.depth = int(m[-1])
        self.violated = re.findall(r"Invariant (\S+) is violated", out) + \
            re.findall(r"Action property (\S+) is violated", out) + \
            (["temporal"] if "Temporal properties were violated" in out else [])
        self.error = ("Error:" in out) or rc not in (0,)
        # coverage lines "<Action line .. of module M>: distinct:generated"
        self.coverage = {}
        for name, d, g in re.findall(r"<(\w+) line \d+, col \d+ to line \d+, col \d+ of module \w+>: (\d+):(\d+)", out):
            self.coverage[name] = (int(d), int(g))

    def printed(self):
        """Values printed with PrintT, parsed loosely: returns raw lines that look like tuples/records."""
        return [l for l in self.out.splitlines() if l.startswith("<<") or l.startswith("[")]


def _scratch(tag):
    d = os.path.join(OUT, "tlc", "%s-%s" % (tag, uuid.uuid4().hex[:8]))
    os.makedirs(os.path.join(d, "tmp"), exist_ok=True)
    return d


def run(module, cfg=None, env=None, workers=1, timeout=900, heap="3g", extra=(), tag=None, keep=False):
    """Run TLC on spec/<module>.tla with spec/<cfg or module>.cfg.  Returns TLCResult."""
    d = _scratch(tag or module)
    cfg = cfg or module
    cmd = ["java", "-Xss64m", "-Xmx" + heap, "-XX:+UseParallelGC", "-XX:ParallelGCThreads=%d" % max(2, min(8, workers)), "-XX:TieredStopAtLevel=1" if workers == 1 and os.environ.get("VERIF_C1") else "-XX:+TieredCompilation", "-Djava.io.tmpdir=" + os.path.join(d, "tmp"),
           "-cp", JARS, "tlc2.TLC", "-workers", str(workers), "-metadir", os.path.join(d, "meta"),
           "-noGenerateSpecTE", "-config", cfg + ".cfg"] + list(extra) + [module + ".tla"]
    e = dict(os.environ)
    e.update({k: str(v) for k, v in (env or {}).items()})
    t0 = time.time()
    try:
        p = subprocess.run(cmd, cwd=SPEC, env=e, stdout=subprocess.PIPE, stderr=subprocess.STDOUT, timeout=timeout)
        out = p.stdout.decode("utf-8", "replace")
        rc = p.returncode
    except subprocess.TimeoutExpired as ex:
        out = (ex.stdout or b"").decode("utf-8", "replace") + "\nError: TLC TIMEOUT after %ss" % timeout
        rc = 124
    finally:
        if not keep:
            shutil.rmtree(d, ignore_errors=True)
    return TLCResult(rc, out, time.time() - t0)


def skip_gates():
    """VERIF_SKIP_GATES=1 (mutation / seed campaigns only, never a registered command): the model-checking gates do not depend on /repo, so a
    campaign that runs the same check against hundreds of changed trees skips them; the evidence of such a run is partial and never committed."""
    return os.environ.get("VERIF_SKIP_GATES") == "1"


def check_model(module, cfg=None, workers=16, timeout=1800, heap="8g", extra=(), env=None, allow_violation=False):
    """Model-check an MC_* instance.  Raises MachineryError if TLC did not finish cleanly."""
    if skip_gates():
        return TLCResult(0, "(skipped: VERIF_SKIP_GATES)", 0.0)
    r = run(module, cfg, env=env, workers=workers, timeout=timeout, heap=heap, extra=extra)
    if r.error and not (allow_violation and r.violated):
        raise MachineryError("TLC failed on %s (%s): rc=%s\n%s" % (module, cfg or module, r.rc, r.out[-3000:]))
    return r


def _read_ndjson(path):
    out = []
    if not os.path.exists(path):
        return out
    with open(path) as f:
        for line in f:
            line = line.strip()
            if line:
                out.append(json.loads(line))
    return out


def bulk(module, records, cfg=None, nproc=16, timeout=1200, heap="3g", env=None, min_chunk=200, tag=None):
    """Judge `records` (list of dicts with unique 'id') with spec/<module>.tla, which must read
    IOEnv.TRACE_FILE (ndjson) and write one verdict per record to IOEnv.OUT_FILE (ndjson).
    Returns (verdicts_by_id, stats)."""
    if not records:
        return {}, {"jvms": 0, "wall": 0.0}
    n = max(1, min(nproc, (len(records) + min_chunk - 1) // min_chunk))
    d = _scratch(tag or ("bulk-" + module))
    chunks = [[] for _ in range(n)]
    for k, r in enumerate(records):
        chunks[k % n].append(r)
    jobs = []
    for k, ch in enumerate(chunks):
        tf = os.path.join(d, "in.%d.ndjson" % k)
        of = os.path.join(d, "out.%d.ndjson" % k)
        with open(tf, "w") as f:
            for r in ch:
                f.write(json.dumps(r, separators=(",", ":")) + "\n")
        jobs.append((tf, of, len(ch)))
    t0 = time.time()

    def one(job):
        tf, of, cnt = job
        e = {"TRACE_FILE": tf, "OUT_FILE": of}
        e.update(env or {})
        r = run(module, cfg, env=e, workers=1, timeout=timeout, heap=heap, tag="j-" + module)
        return r, of, cnt

    verdicts = {}
    try:
        with ThreadPoolExecutor(max_workers=n) as ex:
            for r, of, cnt in ex.map(one, jobs):
                if r.error:
                    raise MachineryError("TLC judge %s failed rc=%s\n%s" % (module, r.rc, r.out[-3000:]))
                vs = _read_ndjson(of)
                if len(vs) != cnt:
                    raise MachineryError("TLC judge %s returned %d verdicts for %d records\n%s" % (module, len(vs), cnt, r.out[-2000:]))
                for v in vs:
                    verdicts[v["id"]] = v
    finally:
        shutil.rmtree(d, ignore_errors=True)
    if len(verdicts) != len(records):
        raise MachineryError("duplicate or missing ids in verdicts of %s" % module)
    return verdicts, {"jvms": n, "wall": time.time() - t0}


def export(module, cfg=None, env=None, workers=1, timeout=900, heap="4g", extra=(), outname="cases"):
    """Run a Gen_* module that writes ndjson to IOEnv.OUT_FILE; returns (records, TLCResult)."""
    d = _scratch("gen-" + module)
    of = os.path.join(d, outname + ".ndjson")
    e = {"OUT_FILE": of}
    e.update(env or {})
    try:
        r = run(module, cfg, env=e, workers=workers, timeout=timeout, heap=heap, extra=extra)
        if r.error:
            raise MachineryError("TLC export %s failed rc=%s\n%s" % (module, r.rc, r.out[-3000:]))
        recs = _read_ndjson(of)
    finally:
        shutil.rmtree(d, ignore_errors=True)
    return recs, r


def sany(module):
    p = subprocess.run(["java", "-cp", JARS, "tla2sany.SANY", module + ".tla"], cwd=SPEC,
                       stdout=subprocess.PIPE, stderr=subprocess.STDOUT)
    out = p.stdout.decode("utf-8", "replace")
    ok = p.returncode == 0 and "Semantic errors" not in out and "Parse Error" not in out and "Fatal errors" not in out
    return ok, out


def export_parts(module, nparts=16, cfg=None, env=None, timeout=900, heap="2g"):
    """Run a Gen_* module nparts times in parallel (IOEnv.PART / IOEnv.NPARTS select a slice) and
    concatenate the exported records in part order.  Returns (records, wall seconds)."""
    t0 = time.time()

    def one(k):
        e = dict(env or {})
        e.update({"PART": str(k), "NPARTS": str(nparts)})
        recs, r = export(module, cfg, env=e, timeout=timeout, heap=heap)
        return recs

    out = []
    with ThreadPoolExecutor(max_workers=nparts) as ex:
        for recs in ex.map(one, range(nparts)):
            out.extend(recs)
    return out, time.time() - t0


def _spec_digest():
    import hashlib
    h = hashlib.sha1()
    for fn in sorted(os.listdir(SPEC)):
        if fn.endswith(".tla") or fn.endswith(".cfg"):
            h.update(fn.encode())
            h.update(open(os.path.join(SPEC, fn), "rb").read())
    return h.hexdigest()


def cached_export_parts(module, nparts=8, env=None, timeout=900, heap="2g"):
    """export_parts with an on-disk cache keyed by the content of spec/ and the export parameters.
    (The export depends only on the specification, never on /repo.)"""
    import hashlib
    key = hashlib.sha1((_spec_digest() + module + json.dumps(env or {}, sort_keys=True) + str(nparts)).encode()).hexdigest()[:20]
    d = os.path.join(OUT, "cache")
    os.makedirs(d, exist_ok=True)
    path = os.path.join(d, "%s-%s.ndjson" % (module, key))
    if os.path.exists(path):
        t0 = time.time()
        return _read_ndjson(path), time.time() - t0
    recs, wall = export_parts(module, nparts, env=env, timeout=timeout, heap=heap)
    tmp = path + ".%d.tmp" % os.getpid()
    with open(tmp, "w") as f:
        for r in recs:
            f.write(json.dumps(r, separators=(",", ":")) + "\n")
    os.replace(tmp, path)
    return recs, wall


def check_models(specs, timeout=3000):
    """Run several MC instances concurrently.  specs: list of (module, cfg, workers, heap).  Returns TLCResults in order."""
    def one(sp):
        module, cfg, workers, heap = sp
        return check_model(module, cfg, workers=workers, heap=heap, timeout=timeout)
    with ThreadPoolExecutor(max_workers=len(specs)) as ex:
        return list(ex.map(one, specs))
