"""C08 - same runs as C07 (disk histories judged by Tr_Disk); owns its own clauses (harness/props/c07.py OWN)."""
from harness.props.c07 import run, replay  # noqa
