"""C13 - assembly always terminates with output or a source-level diagnostic."""
import random, os, sys, subprocess, tempfile, shutil, time, json
from harness import tlc, asmgen, asmcheck, asmio, proggen, asmrun
from harness.asmcheck import Case
from harness.props import c03

README = """; Print HELLO WORLD on the screen
            NAM     HELLO           ; Name of the program
CHROUT      EQU     $A30A           ; Location of CHROUT routine
POLCAT      EQU     $A000           ; Location of POLCAT routine
            ORG     $0E00           ; Originate at $0E00
START       JSR     $A928           ; Clear the screen
            LDX     #MESSAGE        ; Load X index with start of message
PRINT       LDA     ,X+             ; Load next character of message
            CMPA    #0              ; Check for null terminator
            BEQ     FINISH          ; Done printing, wait for keypress
            JSR     CHROUT          ; Print out the character
            BRA     PRINT           ; Print next char
MESSAGE     FCC     "HELLO WORLD"
            FDB     $0              ; Null terminator
FINISH      JSR     [POLCAT]        ; Read keyboard
            BEQ     FINISH          ; No key pressed, wait for keypress
            JMP     $A027           ; Restart BASIC
            END     START
""".splitlines(True)

SRC_ALPHABET = "ABXYUSDPCR LN0123456789$%#<>[],+-*/'\";@.:\t !=()&^?_zq"


def mutate_line(rnd, line):
    body = line.rstrip("\n")
    fields = body.split()
    r = rnd.random()
    if r < 0.15 and fields:                 # delete a field
        k = rnd.randrange(len(fields))
        body = body.replace(fields[k], "", 1)
    elif r < 0.30 and fields:               # duplicate a field
        k = rnd.randrange(len(fields))
        body = body.replace(fields[k], fields[k] + " " + fields[k], 1)
    elif r < 0.45 and len(fields) >= 2:     # empty operand
        head = body.split(";")[0].rstrip()
        parts = head.rsplit(None, 1)
        body = (parts[0] + " ") if len(parts) == 2 else " "
    elif r < 0.55:                          # unterminated string / stray quote
        k = rnd.randrange(len(body) + 1)
        body = body[:k] + rnd.choice(['"', "'", "/"]) + body[k:]
    elif r < 0.80 and body:                 # stray punctuation / character replacement
        k = rnd.randrange(len(body))
        body = body[:k] + rnd.choice(",;#[]<>+-*/$%@:.()") + body[k + (rnd.random() < 0.5):]
    elif body:                              # delete a character
        k = rnd.randrange(len(body))
        body = body[:k] + body[k + 1:]
    return body + "\n"


def raw_traces(ctx, name, programs):
    """programs: list of line lists.  Only the outcome clauses apply (no abstract form)."""
    t0 = time.time()
    triples = [(k, [], lines) for k, lines in enumerate(programs)]
    traces, extras = asmrun.run(triples)
    programs = programs[:len(traces)]
    for t in traces:
        t["focus"] = 0
        if t["outcome"] == "stmtcount":
            t["outcome"] = "ok"
        t["obs"], t["image"], t["symtab"] = [], [], []
    verd, st = tlc.bulk("Tr_Asm", traces, nproc=asmcheck.NPROC_JVM)
    outcomes = {}
    for t in traces:
        outcomes[t["outcome"]] = outcomes.get(t["outcome"], 0) + 1
        x = extras[t["id"]]
        for it in verd[t["id"]]["items"]:
            if ctx.prop not in asmcheck.owners(it):
                continue
            item = {"clause": it["clause"], "class": {"form": "raw"}, "symptom": {"why": t["outcome"], "exc": x["exc"], "site": x["site"]}}
            ctx.report(item, {"kind": "asm", "lines": programs[t["id"]], "outcome": t["outcome"], "exc": x["exc"], "site": x["site"], "msg": x["msg"], "suite": name})
        if not x["input_intact"]:
            ctx.report({"clause": "input-modified", "class": {"form": "raw"}, "symptom": {}}, {"kind": "asm", "lines": programs[t["id"]]})
        ctx.add_class("raw|%s|%s" % (t["outcome"], x["site"] or x["msg"][:25]))
    ctx.add_suite(name, len(programs), len(traces), time.time() - t0, {"outcomes": outcomes})
    ctx.sample({"suite": name, "lines": programs[len(programs) // 2], "outcome": traces[len(programs) // 2]["outcome"]})


def cli_clause(ctx, rnd, programs):
    """diagnostic => non-zero exit status and no output file created or modified (real subprocesses)."""
    t0 = time.time()
    d = tempfile.mkdtemp(prefix="c13cli", dir=os.path.join(tlc.OUT))
    n = 0
    from concurrent.futures import ThreadPoolExecutor

    def run_cmd(cmd):
        try:
            p = subprocess.run(cmd, stdout=subprocess.PIPE, stderr=subprocess.PIPE, timeout=10, cwd=d)
            return p.returncode, p.stderr.decode("utf-8", "replace"), p.stdout.decode("utf-8", "replace")
        except subprocess.TimeoutExpired:
            return -9, "TIMEOUT", ""
    try:
        cmds = []
        open(os.path.join(d, "empty.inc"), "w").close()           # a zero-length include file (the assemblies run with cwd = d)
        for k, lines in enumerate(programs):
            src = os.path.join(d, "p%d.asm" % k)
            open(src, "w").write("".join(lines))
            outs = {"bin": os.path.join(d, "o%d.bin" % k), "cas": os.path.join(d, "o%d.cas" % k), "dsk": os.path.join(d, "o%d.dsk" % k)}
            if k % 3 == 0:
                open(outs["bin"], "wb").write(b"OLD")
            cmd = [sys.executable, os.path.join(asmio.REPO, "assembler.py"), src, "--to_bin", outs["bin"], "--to_cas", outs["cas"], "--to_dsk", outs["dsk"], "--name", "P"]
            if k % 3 == 0:
                cmd.append("--append")
            cmds.append(cmd)
        with ThreadPoolExecutor(max_workers=12) as ex:
            results = list(ex.map(run_cmd, cmds))
        for k, lines in enumerate(programs):
            src = os.path.join(d, "p%d.asm" % k)
            outs = {"bin": os.path.join(d, "o%d.bin" % k), "cas": os.path.join(d, "o%d.cas" % k), "dsk": os.path.join(d, "o%d.dsk" % k)}
            pre = b"OLD" if k % 3 == 0 else None
            rc, err, out = results[k]
            cwd = os.getcwd()
            os.chdir(d)                                            # (INCLUDE names are relative to the working directory)
            try:
                rec = asmio.assemble(list(lines))
            finally:
                os.chdir(cwd)
            n += 1
            created = [o for o in outs.values() if os.path.exists(o) and not (o == outs["bin"] and pre is not None)]
            modified = pre is not None and open(outs["bin"], "rb").read() != pre
            cls = {"form": "cli", "api_outcome": rec["outcome"]}
            if rc == -9:
                ctx.report({"clause": "cli-timeout", "class": cls, "symptom": {}}, {"kind": "cli", "lines": lines})
            elif "Traceback" in err:
                ctx.report({"clause": "cli-traceback", "class": cls, "symptom": {"exc": err.strip().splitlines()[-1][:60]}}, {"kind": "cli", "lines": lines, "stderr": err[-600:]})
            elif rec["outcome"] in ("parse", "translation"):
                if rc == 0:
                    ctx.report({"clause": "cli-exit-zero-on-diagnostic", "class": cls, "symptom": {}}, {"kind": "cli", "lines": lines, "stdout": out[-300:]})
                if created or modified:
                    ctx.report({"clause": "cli-output-on-diagnostic", "class": cls, "symptom": {}}, {"kind": "cli", "lines": lines, "created": created})
            elif rec["outcome"] == "ok" and rc != 0:
                ctx.report({"clause": "cli-nonzero-on-success", "class": cls, "symptom": {"rc": rc}}, {"kind": "cli", "lines": lines, "stdout": out[-300:], "stderr": err[-300:]})
            elif rec["outcome"] == "ok" and pre is None and rec["image"] and \
                    (not os.path.exists(outs["bin"]) or list(open(outs["bin"], "rb").read()) != rec["image"]):
                # "ends ... with an image": the command that reports success has written the image it was asked for
                ctx.report({"clause": "cli-success-without-image", "class": cls, "symptom": {}}, {"kind": "cli", "lines": lines, "stdout": out[-300:]})
            ctx.add_class("cli|%s|%s" % (rec["outcome"], rc))
            for o in outs.values():
                if os.path.exists(o):
                    os.remove(o)
    finally:
        shutil.rmtree(d, ignore_errors=True)
    ctx.add_suite("cli-exit-and-outputs", n, 0, time.time() - t0)


def run(ctx):
    thorough = ctx.tier == "thorough"
    rnd = random.Random(ctx.seed * 86028121 + 13)
    c03.gates(ctx, thorough)
    # structured stress: the sizing programs and distance sweeps of C03 (termination of the data-dependent loop)
    recs, wall = tlc.cached_export_parts("Gen_Sizing", 8, env={"TIER": "quick"})
    asmcheck.run_suite(ctx, "sizing-programs", [c03.sizing_case(r["prog"]) for r in recs])
    near8 = list(range(110, 140))
    asmcheck.run_suite(ctx, "pcr-distances", c03.pcr_cases(["LDA", "LDY"], near8, rnd, inner=(0, 1, 2, 3)))
    # valid random programs, then every kind of single-line mutation of valid programs
    corpus = [README]
    valid_cases = []
    for _ in range(3000 if thorough else 400):
        prog, kind = proggen.gen_program(rnd, 3, 14, faults=False)
        c = Case(prog, tag=kind)
        valid_cases.append(c)
        corpus.append(c.lines)
    asmcheck.run_suite(ctx, "valid-programs", valid_cases)
    asmcheck.run_suite(ctx, "across-org", c03.across_org_cases(rnd, 10000 if thorough else 1500))
    muts = []
    for _ in range(400000 if thorough else 30000):
        lines = list(rnd.choice(corpus))
        k = rnd.randrange(len(lines))
        lines[k] = mutate_line(rnd, lines[k])
        muts.append(lines)
    asmcheck.run_text_suite(ctx, "line-mutations", muts)
    rnds = []
    for _ in range(300000 if thorough else 20000):
        n = rnd.choice([1, 1, 2, 3])
        rnds.append(["".join(rnd.choice(SRC_ALPHABET) for _ in range(rnd.randint(1, 24))) + "\n" for _ in range(n)])
    asmcheck.run_text_suite(ctx, "random-lines", rnds)
    # very long tokens (labels, mnemonics, operands of 24-200 characters) with a stray character at the end / in the middle: the time to reject a line
    # must not grow with the length of a name (a pattern that backtracks exponentially hangs the assembler)
    longs = []
    for _ in range(4000 if thorough else 600):
        n = rnd.choice([24, 28, 32, 40, 64, 100, 200])
        tok = "".join(rnd.choice("ABCDEFGHIJKLMNOPQRSTUVWXYZ0123456789" if rnd.random() < 0.7 else "AB12@_") for _ in range(n))
        stray = rnd.choice(["!", ".", "?", ":", "&", "^", "=", "(", ")", "_", "@", "", "", "+", "-1", "*", ",X", ",PCR", "]", "+!"])
        pre = rnd.choice(["", "#", "<", ">", "[", "$", "%", "'"])
        where = rnd.choice(["operand", "operand", "operand", "label", "mnemonic", "fcb", "equ"])
        if where == "operand":
            line = " %s %s%s%s\n" % (rnd.choice(["LDA", "LDX", "JMP", "BRA", "LBSR", "LEAX", "STA", "FDB", "RMB", "ORG"]), pre, tok, stray)
        elif where == "label":
            line = "%s%s NOP \n" % (tok, stray)
        elif where == "mnemonic":
            line = " %s%s #1\n" % (tok, stray)
        elif where == "fcb":
            line = " FCB 1,%s%s,2\n" % (tok, stray)
        else:
            line = "K EQU %s%s%s\n" % (pre, tok, stray)
        longs.append([line] if rnd.random() < 0.7 else [" ORG $1000\n", line, " RTS \n"])
    # numbers of thousands of digits (the interpreter refuses to convert more than 4300 digits): a number too large is a diagnostic like 65536 is
    for nd in (4299, 4300, 4301, 5000, 20000):
        for lead in ("1", "0", "9"):
            digs = lead * nd
            for line in (" LDA #%s\n" % digs, " LDX #-%s\n" % digs, " FCB 1,%s\n" % digs, " FDB %s\n" % digs, " RMB %s\n" % digs, "K EQU %s\n" % digs, " ORG %s\n" % digs,
                         " LDA %s,X\n" % digs, " LDA #1+%s\n" % digs, " LEAX %s,PCR\n" % digs, " JMP [%s]\n" % digs, " LDA <%s\n" % digs, " LDD #$%s\n" % digs, " LDA #%%%s\n" % digs):
                longs.append([" ORG $1000\n", line, " RTS \n"])
    asmcheck.run_text_suite(ctx, "long-tokens", longs)
    # expressions in the operands of the pseudo operations (EQU, ORG, RMB, FCB, FDB, SETDP, END): terms that are undefined, defined later, defined by another
    # expression, zero divisors, results beyond 16 bits - and statements that then use the symbol: every one ends with an image or a diagnostic
    pseudo = []
    terms = ["1", "5", "255", "256", "300", "65535", "$10", "$FFFF", "0", "EARLY", "LATER", "NOSUCH", "LAB", "LAB2", "K"]
    for _ in range(30000 if thorough else 4000):
        def expr():
            r = rnd.random()
            if r < 0.25:
                return rnd.choice(terms)
            return rnd.choice(terms) + rnd.choice("+-*/") + rnd.choice(terms)
        lines = [" ORG $%X\n" % rnd.choice([0, 0x80, 0xFE, 0x0E00, 0xFFF0]) if rnd.random() < 0.7 else " ORG %s\n" % expr(), "EARLY EQU %s\n" % rnd.choice(["7", "$1234", "0", "65535"]), "LAB NOP \n"]
        for _j in range(rnd.randint(1, 4)):
            mn = rnd.choice(["EQU", "EQU", "EQU", "ORG", "RMB", "FCB", "FDB", "SETDP", "END"])
            lab = rnd.choice(["K", "K", "M", "N", ""]) if mn in ("EQU", "RMB", "FCB", "FDB") else ""
            if mn == "EQU" and not lab:
                lab = "K"
            lines.append("%s %s %s\n" % (lab, mn, expr() if rnd.random() < 0.85 else expr() + "," + expr()))
            if rnd.random() < 0.6:
                lines.append(" %s\n" % rnd.choice(["LDA #K", "LDX #K", "LDA K", "LDA <K", "JMP K", "LDA K,X", "LDX #K+1", "FDB K", "FCB K", "LEAX K,PCR", "BRA K", "LDA [K]", "RMB K", "LDB #M", "LDY #N-1"]))
        lines += ["LAB2 RTS \n", "LATER EQU 9\n"]
        pseudo.append(lines)
    asmcheck.run_text_suite(ctx, "pseudo-op-expressions", pseudo)
    # INCLUDE of a missing file and inclusion cycles of length 1-3 (the other data-dependent recursion)
    from harness.props import c19
    import multiprocessing as mp
    os.environ["VERIF_SCRATCH"] = tlc.OUT
    t0 = time.time()
    with mp.Pool(16) as pool:
        ts = pool.map(c19.one, [(k, rnd.randrange(1 << 40), ("cycle", "missing", "notext", "cycle")[k % 4]) for k in range(600 if thorough else 90)], chunksize=5)
    for t in ts:
        ctx.add_class("include|%s|%s" % (t["mode"], t["a"]["outcome"]))
        if t["a"]["outcome"] not in ("parse", "translation"):
            ctx.report({"clause": "outcome", "class": {"form": "include-" + t["mode"]}, "symptom": {"why": t["a"]["outcome"], "exc": t["exc"], "site": ""}},
                       {"kind": "include", "main": t["linesA"], "files": t["files"]})
        cli = t.get("cli")
        if cli is not None and (cli["tb"] or cli["exit"] == 0):
            ctx.report({"clause": "cli-traceback" if cli["tb"] else "cli-exit-zero-on-diagnostic", "class": {"form": "include-" + t["mode"]}, "symptom": {}},
                       {"kind": "include", "main": t["linesA"], "files": t["files"]})
    ctx.add_suite("include-missing-and-cycles", len(ts), 0, time.time() - t0)
    # the CLI: diagnostic => exit != 0 and no output file
    degenerate = [[], ["\n"], ["\n", "\n"], ["; only a comment\n"], ["* only a comment\n"], [" \n"], ["\t\n"], [" INCLUDE empty.inc\n", " NOP \n"], [" NOP \n", " INCLUDE empty.inc\n"]]
    sample = [README] + degenerate + [rnd.choice(muts) for _ in range(150 if thorough else 24)]
    cli_clause(ctx, rnd, sample)
    ctx.cov["rule"] = ("sizing programs / PCR distance sweeps (loop termination), random valid programs, single-line mutations (delete/duplicate a field, empty operand, "
                       "unterminated string, stray punctuation) of the README example and of random valid programs, random lines over the source alphabet; each run "
                       "under a watchdog; outcome must be ok | parse | translation with a diagnostic naming a statement (judged by Tr_Asm); CLI sample as real "
                       "subprocesses: diagnostic => exit != 0, no output file created or modified. distinct_nontrivial = (outcome, call site / message) classes")
    ctx.assumptions += ["termination is observed under a 5 s watchdog per assembly; the sizing loop's termination is also model-checked (MC_AsmSizing, liveness)"]


def replay(ctx, rp):
    return asmcheck.replay_case(ctx, rp["replay"])
