"""C06 - cassette images round-trip every file exactly (and C14's structural clauses on the same runs)."""
import os, random, time, multiprocessing as mp
from harness import tlc, containers as ct

OWN = {"C06": {"roundtrip"}, "C14": {"wellformed", "contents", "blocks", "leaders"}}


def gates(ctx, thorough):
    r = tlc.check_model("MC_Tape", "MC_Tape3" if thorough else "MC_Tape", workers=12, heap="16g", timeout=3000)
    ctx.add_model("MC_Tape(BLK=3,data<=%d)" % (3 if thorough else 2), r, {"invariants": ["RoundTrip (scanner o writer = identity at every block boundary)", "ChunkLaw"]})
    recs, r = tlc.export("MC_TapeLen")
    if recs[0]["bad"] != 0:
        raise tlc.MachineryError("MC_TapeLen: chunking law fails for %d lengths" % recs[0]["bad"])
    ctx.cov["models"]["MC_TapeLen"] = {"kind": "theorem evaluated by TLC, exhaustive", "lengths": recs[0]["lengths"], "wall_s": round(r.wall, 2)}


def judge(ctx, name, recs, t0):
    verd, st = tlc.bulk("Tr_Tape", recs, nproc=6, min_chunk=40, heap="4g")
    own = OWN[ctx.prop]
    nv = 0
    for r in recs:
        v = verd[r["id"]]
        for c in v["classes"]:
            ctx.add_class("tapefile|%s|%s|%s|%s" % (c["len"], c["name"], c["type"], c["dtype"]))
        ctx.add_class("tape|%d|%s|%s" % (min(v["nfiles"], 4), v["hasempty"], r["origin"]))
        for cl in v["failed"]:
            if cl not in own or (r["origin"] == "spec" and cl == "leaders"):
                continue
            if r["origin"] == "spec" and cl not in ("roundtrip", "leaders"):
                raise tlc.MachineryError("spec-written tape fails the spec's own scanner (%s, %s)" % (cl, v["why"]))
            item = {"clause": cl, "class": dict(v["fclass"], origin=r["origin"], hasempty=v["hasempty"], emptybefore=v["emptybefore"]),
                    "symptom": {"why": v["why"], "nlisted_minus_nfiles": v["nlisted"] - v["nfiles"], "exc": r["listed"]["exc"].split(":")[0]}}
            small = dict(r, buffer="(%d bytes)" % len(r["buffer"]), files=[dict(f, data=f["data"][:40] + (["..."] if len(f["data"]) > 40 else [])) for f in r["files"]],
                         listed=dict(r["listed"], files=[dict(f, data=len(f["data"])) for f in r["listed"]["files"]]))
            if ctx.report(item, {"kind": "tape", "record": small, "verdict": v}) == "violation":
                nv += 1
    ctx.add_suite(name, len(recs), len(recs), time.time() - t0, {"violating_items": nv})
    r = recs[len(recs) // 2]
    ctx.sample({"suite": name, "files": [dict(f, data=f["data"][:16]) for f in r["files"]], "buffer_len": len(r["buffer"]), "verdict": verd[r["id"]]["failed"]})


def tool_written(ctx, name, filelists):
    t0 = time.time()
    os.environ["VERIF_SCRATCH"] = tlc.OUT
    with mp.Pool(16) as pool:
        recs = pool.map(ct.tape_case, list(enumerate(filelists)), chunksize=20)
    judge(ctx, name, recs, t0)


def spec_written(ctx, name, filelists, rnd):
    """reader direction: streams built by the specification's writer with arbitrary leaders / gaps"""
    t0 = time.time()
    ins = []
    for k, fl in enumerate(filelists):
        lay = {"blank": rnd.choice([0, 1, 128, 300]), "leader": rnd.choice([1, 2, 128, 255, 600]), "gap": rnd.choice([0, 0, 1, 128]),
               "chunk": rnd.choice([255, 255, 255, 128, 100, 254, 17])}       # blocks of at most 255 bytes: also recorders that cut smaller ones
        ins.append({"id": k, "files": [ct.jfile(f) for f in fl], "lay": lay})
    out, st = tlc.bulk("Gen_Tape", ins, nproc=6, min_chunk=40, heap="4g")
    recs = []
    for i in ins:
        buf = out[i["id"]]["buffer"]
        recs.append({"id": i["id"], "origin": "spec", "files": i["files"], "buffer": buf, "listed": ct.list_tape(buf), "werr": "", "lay": i["lay"]})
    judge(ctx, name, recs, t0)


def boundary_lists(rnd):
    out = [[]]
    for n in [0, 1, 2, 254, 255, 256, 257, 509, 510, 511, 764, 765, 766, 1020, 1275, 65535]:
        for kind in ("ramp", "marker", "55"):
            out.append([ct.mkfile("F%d" % n, ct.content(rnd, kind, n), 2, 0, 0x0E00, 0x0E10)])
    for n in [0, 255, 256]:
        for m in [0, 1, 255]:
            out.append([ct.mkfile("ONE", ct.content(rnd, "ramp", n)), ct.mkfile("TWO", ct.content(rnd, "3c", m), 0, 255, 0x553C, 0x3C00), ct.mkfile("THREE", ct.content(rnd, "rand", 300), 1, 0)])
    for n in [0, 1, 255, 256, 600]:                     # files that came from a tape recorded with gaps carry the gap flag $FF
        out.append([ct.mkfile("G%d" % n, ct.content(rnd, "ramp", n), 2, 0, 0x0E00, 0x0E10, gap=255), ct.mkfile("H%d" % n, ct.content(rnd, "rand", 300), rnd.choice([0, 1]), 255, gap=rnd.choice([0, 255]))])
    addrs = [0, 1, 0x7F, 0x80, 0xFF, 0x100, 0x101, 0xFFF, 0x1000, 0x7FFF, 0x8000, 0xFF00, 0xFFFF, 0x0A0D, 0x2000]
    for i, a in enumerate(addrs):                      # all 16-bit load / entry addresses: every byte boundary, both positions
        b = addrs[(i * 7 + 3) % len(addrs)]
        out.append([ct.mkfile("AD%d" % i, [1, 2, 3, 4], 2, 0, a, b), ct.mkfile("AE%d" % i, [5, 6], rnd.choice([0, 1, 3]), rnd.choice([0, 255]), b, a)])
    for nm in ["", "A", "ABCDEFGH", "ABCDEFGHI", "abcdefghijkl", "Mixed1", "U<"]:
        out.append([ct.mkfile(nm, [1, 2, 3], 3, 255, 0xFFFF, 0x0055)])
    return out


def run(ctx):
    thorough = ctx.tier == "thorough"
    rnd = random.Random(ctx.seed * 982451653 + (6 if ctx.prop == "C06" else 14))
    gates(ctx, thorough)
    lists = boundary_lists(rnd)
    lists += [ct.random_tape_files(rnd) for _ in range(6000 if thorough else 500)]
    if thorough:
        lists += [[ct.mkfile("L%d" % n, ct.content(rnd, "rand", n))] for n in range(0, 1101)]
    tool_written(ctx, "tool-written", lists)
    rl = [fl for fl in boundary_lists(rnd) if fl] + [ct.random_tape_files(rnd, lengths=[1, 2, 254, 255, 256, 510, 511, 1020]) for _ in range(2000 if thorough else 200)]
    rl = [[f for f in fl] for fl in rl]
    spec_written(ctx, "spec-written", rl, rnd)
    ctx.cov["rule"] = ("file lists (0..4 files; names 0..12 chars; lengths 0,1,254,255,256,509,510,511,765,1020,... ; contents ramp / all $55 / all $3C / block-marker pattern / "
                       "random; addresses incl. $553C $3C00 $0055; types 0-3 x data types $00/$FF) written by the tool and scanned by Tape!ParseTape (checksum-verifying), "
                       "and streams written by the specification's writer (arbitrary blank/leader/gap lengths) listed by the tool. distinct_nontrivial = (length class, name class, "
                       "type, data type) classes of files x tape shape classes")
    ctx.assumptions += ["the two 16-bit addresses of the name block are compared as a pair in stream order (the property does not fix their order)"]


def replay(ctx, rp):
    print(rp["replay"]["record"]["files"])
    return 0
