"""C04 - symbols and two-term expressions evaluate to their arithmetic value everywhere."""
import random, copy
from harness import tlc, asmgen, asmcheck, asmio
from harness.asmio import stmt, ex, sym, num
from harness.asmcheck import Case
from harness.props import c01


def table(tier):
    return tlc.cached_export_parts("Gen_C04", 11, env={"TIER": tier})


def random_cases(rnd, recs, n):
    """Same frames, both terms redrawn: random numbers in random classes/spellings or one of the four symbols."""
    out = []
    for _ in range(n):
        r = copy.deepcopy(rnd.choice(recs))
        prog = r["prog"]
        s = prog[4]

        def term():
            c = rnd.random()
            if c < 0.45:
                v = max(0, asmgen.random_value(rnd))
                return num(v, rnd.choice(asmgen.spellings_for(v, allow_char=False)))
            return sym(rnd.choice(["KB", "KA", "LB", "LA"]))
        e = ex(term(), rnd.choice(["+", "-", "*", "/", ""]), None)
        if e["op"]:
            e["r"] = term()
        if s["form"] in ("fcb", "fdb"):
            s["vals"][0] = e
        elif s["form"] == "rmb":
            continue
        elif s["form"] == "rel":
            if e["l"]["k"] != "sym" or e["l"]["s"] not in ("LB", "LA") or e["op"] not in ("", "+", "-"):
                continue
            s["expr"] = e
        else:
            s["expr"] = e
        for k in (0, 7):
            v = rnd.choice([2, 5, 16, 255, 256, 4660, 65535, rnd.randint(0, 65535)])
            prog[k]["expr"] = ex(num(v, rnd.choice(asmgen.spellings_for(v, allow_char=False))))
        out.append(Case(prog, focus=5, tag="random-expr"))
    return out


BOUNDS = [0, 1, 0x0F, 0x10, 0x7E, 0x7F, 0x80, 0x81, 0xFE, 0xFF, 0x100, 0x101, 0x1FF, 0x200, 0x7FFF, 0x8000, 0xFF00, 0xFFFE]


def label_boundary_cases(rnd, n_random=0):
    """A label whose ADDRESS sits on every width boundary (..., $FF, $100, $101, ...) used - bare and in label op constant expressions - in every operand
    position of fixed width: an 8-bit field holds it exactly when it fits, a 16-bit field always."""
    uses = []
    for mn, form, kw, size in (("LDA", "imm", {}, 2), ("ADDB", "imm", {}, 2), ("CMPA", "imm", {}, 2), ("LDX", "imm", {}, 3), ("CMPY", "imm", {}, 4),
                               ("LDA", "mem", {"force": "<"}, 2), ("STB", "mem", {"force": "<"}, 2), ("LDA", "mem", {"force": ">"}, 3), ("JMP", "mem", {}, 3),
                               ("LDB", "mem", {}, 3), ("LDB", "mem", {}, 2), ("JMP", "extind", {}, 4), ("LDA", "extind", {}, 4)):
        uses.append((mn, form, kw, size))
    exprs = [("", 0), ("+", 1), ("-", 1), ("+", 2), ("*", 2), ("/", 2), ("+", 255), ("-", 255), ("+", 256), ("*", 1), ("/", 1)]
    cases = []
    combos = [(a, u, e) for a in BOUNDS for u in uses for e in exprs]
    for _ in range(n_random):
        combos.append((rnd.randint(0, 0xFFFE), rnd.choice(uses), (rnd.choice(["+", "-", "*", "/"]), rnd.choice([1, 2, 3, 16, 128, 255, 256, 1000]))))
    for a, (mn, form, kw, size), (op, c) in combos:
        e = ex(sym("L"), op, num(c)) if op else ex(sym("L"))
        use = stmt(mn, form, label="U", expr=e, **kw)
        if (a + len(cases)) % 2 == 0 or a < size:     # label before its use
            prog = [stmt("ORG", "org", expr=ex(num(a, "hex4"))), stmt("NOP", label="L"), use, stmt("NOP", label="E")]
            focus = 3
        else:                                          # use first: the label lands on a when the use takes `size` bytes
            prog = [stmt("ORG", "org", expr=ex(num(a - size, "hex4"))), use, stmt("NOP", label="L"), stmt("NOP", label="E")]
            focus = 2
        cases.append(Case(prog, focus=focus, tag="label-boundary"))
    return cases


def shared_label_cases(rnd, n):
    """ONE label referenced by several statements through fields of different width (direct / 8-bit immediate next to extended / 16-bit immediate /
    indirect), in any order, before and after its definition: every reference is encoded at ITS field's width."""
    narrow = [("LDA", "mem", {"force": "<"}), ("STB", "mem", {"force": "<"}), ("LDA", "imm", {}), ("CMPB", "imm", {}), ("ANDA", "imm", {})]
    wide = [("LDX", "imm", {}), ("CMPY", "imm", {}), ("JMP", "mem", {}), ("LDD", "mem", {"force": ">"}), ("JMP", "extind", {}), ("LDU", "imm", {}), ("JSR", "mem", {})]
    cases = []
    for _ in range(n):
        a = rnd.choice([0, 1, 0x10, 0x7F, 0x80, 0xF0, 0xFE, 0xFF, 0x100, 0x1234])
        k = rnd.randint(2, 5)
        picks = [rnd.choice(narrow if rnd.random() < 0.5 else wide) for _ in range(k)]
        if a <= 0xFF and not any(p in narrow for p in picks):
            picks[0] = rnd.choice(narrow)
        if not any(p in wide for p in picks):
            picks[-1] = rnd.choice(wide)
        uses = [stmt(mn, form, label="U%d" % j, expr=ex(sym("L")), **kw) for j, (mn, form, kw) in enumerate(picks)]
        pos = rnd.randint(0, len(uses))
        prog = [stmt("ORG", "org", expr=ex(num(a, "hex4")))] + uses[:pos] + [stmt("NOP", label="L")] + uses[pos:] + [stmt("NOP", label="E")]
        cases.append(Case(prog, focus=2 if pos else 3, tag="shared-label"))
    return cases


def run(ctx):
    thorough = ctx.tier == "thorough"
    rnd = random.Random(ctx.seed * 32452843 + 4)
    c01.gates(ctx, thorough)
    recs, wall = table(ctx.tier)
    ctx.cov["suites"]["export"] = {"tlc_exported_programs": len(recs), "wall_s": round(wall, 2)}
    if thorough and len(recs) > 400000:
        recs = rnd.sample(recs, 400000)
    asmcheck.run_suite(ctx, "expr-table", [Case(r["prog"], focus=r["focus"], tag="table") for r in recs])
    asmcheck.run_suite(ctx, "expr-random", random_cases(rnd, recs, 150000 if thorough else 8000))
    asmcheck.run_suite(ctx, "label-boundary", label_boundary_cases(rnd, 30000 if thorough else 1500))
    asmcheck.run_suite(ctx, "shared-label-mixed-width", shared_label_cases(rnd, 10000 if thorough else 800))
    ctx.cov["rule"] = ("TLC-enumerated frames: operand position (imm8, imm16, extended, [extended], index offset, PCR target, branch target, FCB, FDB, RMB, EQU) x "
                       "{number in each spelling, EQU before/after, label before/after} op {same} for + - * /, two origins (labels below / above $100); plus seeded random "
                       "redraws of both terms and of the EQU values. Judged by TLC: encoded value = Asm!Eval under the environment the listing claims, symbol-table "
                       "values, division by zero rejected, out-of-range results reduced mod 65536 or rejected. distinct_nontrivial = spec classes of the statement under test")


def replay(ctx, rp):
    return asmcheck.replay_case(ctx, rp["replay"])
