"""C04 - symbols and two-term expressions evaluate to their arithmetic value everywhere."""
import random, copy
from harness import tlc, asmgen, asmcheck, asmio
from harness.asmio import stmt, ex, sym, num
from harness.asmcheck import Case
from harness.props import c01


def table(tier):
    return tlc.cached_export_parts("Gen_C04", 11, env={"TIER": tier})


def random_cases(rnd, recs, n):
    """Same frames, both terms redrawn: random numbers in random classes/spellings or one of the four symbols."""
    out = []
    for _ in range(n):
        r = copy.deepcopy(rnd.choice(recs))
        prog = r["prog"]
        s = prog[4]

        def term():
            c = rnd.random()
            if c < 0.45:
                v = max(0, asmgen.random_value(rnd))
                return num(v, rnd.choice(asmgen.spellings_for(v, allow_char=False)))
            return sym(rnd.choice(["KB", "KA", "LB", "LA"]))
        e = ex(term(), rnd.choice(["+", "-", "*", "/", ""]), None)
        if e["op"]:
            e["r"] = term()
        if s["form"] in ("fcb", "fdb"):
            s["vals"][0] = e
        elif s["form"] == "rmb":
            continue
        elif s["form"] == "rel":
            if e["l"]["k"] != "sym" or e["l"]["s"] not in ("LB", "LA") or e["op"] not in ("", "+", "-"):
                continue
            s["expr"] = e
        else:
            s["expr"] = e
        for k in (0, 7):
            v = rnd.choice([2, 5, 16, 255, 256, 4660, 65535, rnd.randint(0, 65535)])
            prog[k]["expr"] = ex(num(v, rnd.choice(asmgen.spellings_for(v, allow_char=False))))
        out.append(Case(prog, focus=5, tag="random-expr"))
    return out


def run(ctx):
    thorough = ctx.tier == "thorough"
    rnd = random.Random(ctx.seed * 32452843 + 4)
    c01.gates(ctx, thorough)
    recs, wall = table(ctx.tier)
    ctx.cov["suites"]["export"] = {"tlc_exported_programs": len(recs), "wall_s": round(wall, 2)}
    if thorough and len(recs) > 400000:
        recs = rnd.sample(recs, 400000)
    asmcheck.run_suite(ctx, "expr-table", [Case(r["prog"], focus=r["focus"], tag="table") for r in recs])
    asmcheck.run_suite(ctx, "expr-random", random_cases(rnd, recs, 150000 if thorough else 8000))
    ctx.cov["rule"] = ("TLC-enumerated frames: operand position (imm8, imm16, extended, [extended], index offset, PCR target, branch target, FCB, FDB, RMB, EQU) x "
                       "{number in each spelling, EQU before/after, label before/after} op {same} for + - * /, two origins (labels below / above $100); plus seeded random "
                       "redraws of both terms and of the EQU values. Judged by TLC: encoded value = Asm!Eval under the environment the listing claims, symbol-table "
                       "values, division by zero rejected, out-of-range results reduced mod 65536 or rejected. distinct_nontrivial = spec classes of the statement under test")


def replay(ctx, rp):
    asmcheck.replay_case(ctx, rp["replay"])
    return 0
