"""C18 - relocating, renaming or reformatting a program changes output only as it must."""
import random, time, copy, multiprocessing as mp
from harness import tlc, asmio, proggen
from harness.asmio import stmt, ex, sym, num
from harness.props import c01

WIDE_IMM = {"LDX", "LDD", "CMPY", "LDS", "ADDD", "CMPU", "LDY", "LDU", "CMPX", "CMPD", "CMPS", "SUBD"}
RENAMES = ["XA1", "BY", "U2", "PCX", "D0", "AB", "SX", "CCZ", "DPQ", "Y9", "L@1", "Q"]


def out_of(rec):
    return {"outcome": rec["outcome"] if rec["outcome"] in ("ok", "parse", "translation") else rec["outcome"],
            "image": rec["image"], "addrs": [o["addr"] for o in rec["obs"]], "bytes": [o["bytes"] for o in rec["obs"]],
            "symtab": rec["symtab"], "origin": rec["origin"]}


def syms_of(s):
    out = []
    for e in [s["expr"]] + s["vals"]:
        for t in (e["l"], e["r"]):
            if t["k"] == "sym":
                out.append(t["s"])
    return out


def suffix_pcr_pair(k, rnd):
    """appending statements near the 8/16-bit PCR limit: the sizes chosen for the statements already there must not change"""
    from harness.props import c03
    n = rnd.randint(3, 6)
    items = []
    if rnd.random() < 0.5:
        # structured: m forward label,PCR statements over one filler whose length puts the first span within a few bytes of the 8-bit limit
        # (whether it is decided in the first sweep then depends on the ones after it), and backward references appended behind
        m = rnd.randint(1, 3)
        bases = [rnd.choice([2, 2, 3]) for _ in range(m)]
        f = 127 - sum(b + 1 for b in bases[1:]) - rnd.randint(-2, 10)
        items = [{"k": "pcr", "sz": 0, "tgt": m + 2, "base": b, "mx": 0} for b in bases] + [{"k": "fix", "sz": f, "tgt": 0, "base": 0, "mx": f}, {"k": "fix", "sz": 1, "tgt": 0, "base": 0, "mx": 1}]
        n = len(items)
    for i in range(1, n + 1 if not items else 0):
        if rnd.random() < 0.4:
            items.append({"k": "fix", "sz": rnd.choice([0, 1, 3, 110, 116, 117, 118, 119, 120, 121, 122, 123, 124, 125, 126, 127, 128]), "tgt": 0, "base": 0, "mx": 0})
            items[-1]["mx"] = items[-1]["sz"]
        else:
            items.append({"k": "pcr", "sz": 0, "tgt": rnd.randint(1, n), "base": rnd.choice([2, 3]), "mx": 0})
    if not any(it["k"] == "pcr" for it in items):
        items[0] = {"k": "pcr", "sz": 0, "tgt": n, "base": 2, "mx": 0}
    base = c03.sizing_case(items).prog
    extra = []
    for j in range(rnd.randint(1, 3)):
        if rnd.random() < 0.8:
            extra.append(stmt(rnd.choice(["LEAS", "LDA", "LDY"]), "pcr", label="Z%d" % j, expr=ex(sym("L%d" % rnd.randint(1, min(n, 2))))))
        else:
            extra.append(stmt("RMB", "rmb", label="Z%d" % j, expr=ex(num(rnd.choice([1, 5, 100, 120])))))
    linesA = [asmio.render(s) for s in base]
    linesB = linesA + [asmio.render(s) for s in extra]
    a, b = asmio.assemble(list(linesA)), asmio.assemble(list(linesB))
    return {"id": k, "D": 0, "absref": [], "moved": [], "labels": [], "ren": [], "tkind": "suffix-pcr", "kind": "suffix",
            "a": out_of(a), "b": out_of(b), "linesA": linesA, "linesB": linesB}


def make_pair(args):
    k, seed = args
    rnd = random.Random(seed)
    if k % 3 == 2:
        return suffix_pcr_pair(k, rnd)
    for _ in range(20):
        prog, kind = proggen.gen_program(rnd, 3, 14, faults=False)
        orgs = [i for i, s in enumerate(prog) if s["mn"] == "ORG"]
        if len(orgs) == 1 and kind == "plain" and not any(s["mn"] in ("FCB", "FDB", "RMB") and syms_of(s) for s in prog):
            break
    else:
        return None
    labels = [s["label"] for s in prog if s["label"] and s["mn"] != "EQU"]
    linesA = [asmio.render(s) for s in prog]
    a = asmio.assemble(list(linesA))
    tkind = rnd.choice(["shift", "shift", "rename", "ws", "comment", "case", "suffix"])
    t = {"id": k, "D": 0, "absref": [], "moved": [], "labels": labels, "ren": [], "tkind": tkind}
    progB = copy.deepcopy(prog)
    if tkind == "shift":
        o = orgs[0]
        base = prog[o]["expr"]["l"]["n"]
        size = 16 * len(prog) + 300
        cands = [d for d in (1, 2, 0x10, 0x7F, 0x234, 0x1000, -0x200, -1, 0x100) if 0 <= base + d and base + d + size < 65536 and ((base < 0x100 - size) == (base + d < 0x100 - size)) and ((base >= 0x100) == (base + d >= 0x100))]
        if not cands or (base < 0x100 and base + size >= 0x100):
            return None
        D = rnd.choice(cands)
        progB[o]["expr"] = ex(num(base + D, "hex4"))
        t["D"] = D
        t["absref"] = [bool(set(syms_of(s)) & set(labels)) and (s["form"] in ("mem", "extind") or (s["form"] == "imm" and s["mn"] in WIDE_IMM)) for s in prog]
        t["moved"] = [i >= o for i in range(len(prog))]
        linesB = [asmio.render(s) for s in progB]
        t["kind"] = "shift"
    elif tkind == "rename":
        names = rnd.sample(RENAMES, len(labels)) if len(labels) <= len(RENAMES) else None
        if names is None:
            return None
        m = dict(zip(labels, names))
        for s in progB:
            if s["label"] in m:
                s["label"] = m[s["label"]]
            for e in [s["expr"]] + s["vals"]:
                for tm in (e["l"], e["r"]):
                    if tm["k"] == "sym" and tm["s"] in m:
                        tm["s"] = m[tm["s"]]
        t["ren"] = [{"from": f, "to": to} for f, to in m.items()]
        linesB = [asmio.render(s) for s in progB]
        t["kind"] = "rename"
    elif tkind == "ws":
        linesB = [asmio.render(s, ws1=rnd.choice([" ", "  ", "\t", " \t", "      "]), ws2=rnd.choice([" ", "   ", "\t", "\t\t"])) for s in prog]
        linesB = [l[:-1] + rnd.choice(["", " ", "   ", "\t"]) + "\n" if not l.rstrip("\n").endswith('"') or True else l for l in linesB]
        t["kind"] = "same"
    elif tkind == "comment":
        cm = ["note", "uses ,X and #5", "it's \"quoted\"", "LDA $10", "", "a ; b ; c", "[L0,PCR]", "+-*/"]
        linesB = [asmio.render(s, comment=rnd.choice(cm)) for s in prog]
        linesA = [asmio.render(s, comment=rnd.choice([None, "old comment", "x"])) for s in prog]
        a = asmio.assemble(list(linesA))
        t["kind"] = "same"
    elif tkind == "case":
        linesB = [asmio.render(s, lower=True) for s in prog]
        t["kind"] = "same"
    else:
        extra, _ = proggen.gen_program(rnd, 1, 5, faults=False)
        extra = [s for s in extra if s["mn"] not in ("ORG", "NAM", "END", "EQU")]
        used = set(labels) | {s["label"] for s in prog}
        for j, s in enumerate(extra):
            s["label"] = "Z%d" % j
            for e in [s["expr"]] + s["vals"]:
                for tm in (e["l"], e["r"]):
                    if tm["k"] == "sym":
                        tm["s"] = rnd.choice(labels) if labels else "Z0"
        base_prog = [s for s in prog if s["mn"] != "END"]
        linesA = [asmio.render(s) for s in base_prog]
        a = asmio.assemble(list(linesA))
        linesB = linesA + [asmio.render(s) for s in extra]
        t["kind"] = "suffix"
    b = asmio.assemble(list(linesB))
    t["a"], t["b"] = out_of(a), out_of(b)
    t["linesA"], t["linesB"] = linesA, linesB
    return t


def model_suffix_pair(args):
    """(program, appended item) pairs exported by TLC over the sizing alphabet"""
    from harness.props import c03
    k, rec = args
    base = c03.sizing_case(rec["prog"]).prog
    x = rec["x"]
    extra = [stmt("LEAS" if x["base"] == 2 else "LDY", "pcr", label="Z0", expr=ex(sym("L%d" % x["tgt"])))]
    linesA = [asmio.render(s) for s in base]
    linesB = linesA + [asmio.render(s) for s in extra]
    a, b = asmio.assemble(list(linesA)), asmio.assemble(list(linesB))
    return {"id": k, "D": 0, "absref": [], "moved": [], "labels": [], "ren": [], "tkind": "suffix-model", "kind": "suffix",
            "a": out_of(a), "b": out_of(b), "linesA": linesA, "linesB": linesB}


def run(ctx):
    thorough = ctx.tier == "thorough"
    rnd = random.Random(ctx.seed * 961748941 + 18)
    c01.gates(ctx, thorough)
    # the sizing algorithm itself is prefix-stable: theorem of AsmSizing evaluated by TLC for all programs of <= 3 (thorough: 4) items x appended item
    if not tlc.skip_gates():
        recs, w = tlc.export_parts("MC_SizingPrefix", 8, env={"MAXN": "4" if thorough else "3"}, timeout=3000, heap="4g")
        if sum(r["bad"] for r in recs):
            raise tlc.MachineryError("MC_SizingPrefix: the sizing model is not prefix-stable: %r" % [r["example"] for r in recs if r["bad"]][:1])
        ctx.cov["models"]["MC_SizingPrefix"] = {"kind": "theorem evaluated by TLC", "programs": sum(r["progs"] for r in recs), "wall_s": round(w, 2)}
    t0 = time.time()
    n = 60000 if thorough else 4000
    pairs, r = tlc.export("Gen_SizingPrefix", env={"N": "1400" if thorough else "700", "FULL4": "0"}, extra=["-seed", str(ctx.seed + 3)])
    if thorough:
        more, r2 = tlc.export("Gen_SizingPrefix", env={"N": "0", "FULL4": "1"}, heap="6g", timeout=1800)
        pairs += more
    with mp.Pool(16) as pool:
        ts = [t for t in pool.map(make_pair, [(k, rnd.randrange(1 << 40)) for k in range(n)], chunksize=50) if t]
        ts += pool.map(model_suffix_pair, [(n + j, p) for j, p in enumerate(pairs)], chunksize=50)
    recs = [{k: v for k, v in t.items() if k not in ("linesA", "linesB", "tkind")} for t in ts]
    verd, st = tlc.bulk("Tr_Pair", recs, nproc=6, heap="4g")
    nv = 0
    for t in ts:
        v = verd[t["id"]]
        ctx.add_class("pair|%s|%s|%s" % (t["tkind"], t["a"]["outcome"], min(len(t["linesA"]) // 4, 4)))
        if not v["ok"]:
            k = v["badk"]
            line = t["linesA"][k - 1].strip() if k else ""
            fields = line.split()
            item = {"clause": t["kind"], "class": {"transform": t["tkind"], "outcomes": v["outcomes"], "stmt": (fields[1] if len(fields) > 1 and t["linesA"][k - 1][0] not in " \t" else (fields[0] if fields else "")) if k else ""},
                    "symptom": {"D": t["D"]}}
            if ctx.report(item, {"kind": "pair", "transform": t["tkind"], "linesA": t["linesA"], "linesB": t["linesB"], "bad_statement": k, "D": t["D"],
                                 "a_bytes": t["a"]["bytes"][k - 1] if k else None, "b_bytes": t["b"]["bytes"][k - 1] if k and k <= len(t["b"]["bytes"]) else None}) == "violation":
                nv += 1
    ctx.add_suite("pairs", len(ts), len(ts), time.time() - t0, {"violating_items": nv})
    ctx.sample({"transform": ts[0]["tkind"], "linesA": ts[0]["linesA"], "linesB": ts[0]["linesB"]})
    ctx.cov["rule"] = ("random accepted programs (label references of the forms label, label+n, label-n; one ORG) x transform {origin shift D on the same side of $100, label "
                       "bijection incl. names containing register letters, white space between fields, comments added / changed / removed (with ,X # quotes ;), mnemonic case, "
                       "appended suffix}, plus a family of programs near the 8/16-bit label,PCR limit with appended PCR statements; both assemblies recorded as one pair trace and judged by TLC with Session!Relocated / Renamed / SameOutput / PrefixStable. "
                       "distinct_nontrivial = (transform, outcome, size) classes")


def replay(ctx, rp):
    print(rp["replay"])
    return 0
