"""C03 - branch and PC-relative displacements reach exactly the referenced target."""
import random, time
from harness import tlc, asmgen, asmcheck, asmio
from harness.asmio import stmt, ex, sym, num
from harness.asmcheck import Case

SHORT = ["BRA", "BRN", "BHI", "BLS", "BCC", "BHS", "BCS", "BLO", "BNE", "BEQ", "BVC", "BVS", "BPL", "BMI", "BGE", "BLT", "BGT", "BLE", "BSR"]
LONG = ["LBRA", "LBSR", "LBRN", "LBHI", "LBLS", "LBCC", "LBHS", "LBCS", "LBLO", "LBNE", "LBEQ", "LBVC", "LBVS", "LBPL", "LBMI", "LBGE", "LBLT", "LBGT", "LBLE"]
EVKEYS = {"ev": "", "i": -1, "tgt": -1, "min": -1, "max": -1, "fwd": False, "forced": False, "fixed": False, "size": -1,
          "progress": False, "sizes": [], "maxs": [], "fixedv": []}


def norm_event(e):
    d = dict(EVKEYS)
    for k, v in e.items():
        if k == "fixed" and isinstance(v, list):
            d["fixedv"] = v
        else:
            d[k] = v
    return d


def filler(k, sz):
    if sz == 0:
        return stmt("SETDP", "setdp", label="L%d" % k, expr=ex(num(0)))
    return stmt("RMB", "rmb", label="L%d" % k, expr=ex(num(sz)))


def sizing_case(items, rnd=None):
    """rnd given: every label,PCR item is written as the indirect form [label,PCR] with probability 1/2 (same sizes, another branch of the operand translation)"""
    prog = []
    for k, it in enumerate(items, 1):
        if it["k"] == "fix" and it["mx"] < it["sz"]:
            prog.append(stmt("LDA", "idx", label="L%d" % k, sub="off", reg="X", expr=ex(num(20))))      # 3 bytes, max_size 2
        elif it["k"] == "fix":
            prog.append(filler(k, it["sz"]))
        else:
            c = it.get("c", 0)                   # label+c / label-c (AsmSizing!CO)
            e = ex(sym("L%d" % it["tgt"])) if c == 0 else ex(sym("L%d" % it["tgt"]), "+" if c > 0 else "-", num(abs(c)))
            prog.append(stmt("LDA" if it["base"] == 2 else "LDY", "pcr", label="L%d" % k, expr=e, ind=bool(rnd and rnd.random() < 0.5)))
    return Case(prog, tag="sizing")


def gates(ctx, thorough):
    r = tlc.check_model("MC_AsmSizing", workers=12, heap="12g")
    ctx.add_model("MC_AsmSizing(n<=3)", r, {"invariants": ["WidthSafe", "Decided", "NoLivelock", "Terminates (liveness, WF)"]})
    r = tlc.check_model("MC_AsmSizing", "MC_AsmSizingC", workers=12, heap="12g")
    ctx.add_model("MC_AsmSizingC(n<=3, label+-constant: c in 0, +-4, +-200)", r, {"invariants": ["WidthSafe (displacement + constant fits the chosen width)", "Decided", "NoLivelock"]})
    r = tlc.check_model("MC_Asm", "MC_Asm3" if thorough else "MC_Asm", workers=12, heap="12g", timeout=3000)
    ctx.add_model("MC_Asm3" if thorough else "MC_Asm", r, {"invariants": ["ReachInv", "CertOK", "MustOK", "LayoutInv", "Bounded"]})
    if thorough:
        r = tlc.check_model("MC_AsmSizing", "MC_AsmSizingCT", workers=14, heap="24g", timeout=3000)
        ctx.add_model("MC_AsmSizingCT(n<=3, label+-constant: 13 constants around +-128)", r, {"invariants": ["WidthSafe", "Decided", "NoLivelock"]})
        r = tlc.check_model("MC_AsmSizing", "MC_AsmSizing4", workers=14, heap="24g", timeout=3000)
        ctx.add_model("MC_AsmSizing(n<=4)", r, {"invariants": ["WidthSafe", "Decided", "NoLivelock"]})


def sizing_replay(ctx, thorough, rnd):
    recs, wall = tlc.cached_export_parts("Gen_Sizing", 8, env={"TIER": ctx.tier})
    if thorough and len(recs) > 150000:
        recs = rnd.sample(recs, 150000)
    # beyond the bound TLC enumerates: seeded random sizing programs of 4-8 items (the step function judges any length)
    def rand_items():
        n = rnd.randint(4, 8)
        items = []
        for i in range(1, n + 1):
            r = rnd.random()
            if r < 0.45:
                sz = rnd.choice([0, 1, 2, 3, 60, 100, 110, 115, 116, 117, 118, 119, 120, 121, 122, 123, 124, 125, 126, 127, 128, 129, 130])
                items.append({"k": "fix", "sz": sz, "tgt": 0, "base": 0, "mx": sz, "c": 0})
            elif r < 0.5:
                items.append({"k": "fix", "sz": 3, "tgt": 0, "base": 0, "mx": 2, "c": 0})
            else:
                # every third PCR statement names label+-constant: the constant shifts the displacement the decision is about
                c = rnd.choice([1, 2, 4, 5, 8, 100, 126, 127, 128, 130, 200, 300]) * rnd.choice([1, -1]) if rnd.random() < 0.33 else 0
                items.append({"k": "pcr", "sz": 0, "tgt": rnd.randint(1, n), "base": rnd.choice([2, 2, 3]), "mx": 0, "c": c})
        if not any(it["k"] == "pcr" for it in items):
            items[0] = {"k": "pcr", "sz": 0, "tgt": n, "base": 2, "mx": 0, "c": 0}
        return items
    recs = recs + [{"prog": rand_items(), "final": []} for _ in range(40000 if thorough else 3000)]
    cases = [sizing_case(r["prog"], rnd) for r in recs]
    traces, verd, extras = asmcheck.run_suite(ctx, "sizing-replay", cases, hooks=True)
    # hook events of the real loop judged by the AsmSizing step function; final sizes compared with the spec's
    t0 = time.time()
    strs = []
    for k, (r, t) in enumerate(zip(recs, traces)):
        evs = [norm_event(e) for e in extras[t["id"]]["hooks"] if e["ev"] in ("Translated", "SizeDecide", "Sweep")]
        if t["outcome"] != "ok":
            # the loop did not come to an end (watchdog) or the program was rejected later: the events seen so far must still follow the step function
            if t["outcome"] == "timeout" and evs:
                strs.append({"id": k, "prog": r["prog"], "events": evs[:120], "final": [], "specfinal": r["final"], "partial": True})
            continue
        strs.append({"id": k, "prog": r["prog"], "events": evs, "final": [len(o["bytes"]) for o in t["obs"]], "specfinal": r["final"], "partial": False})
    if strs:
        vs, st = tlc.bulk("Tr_Sizing", strs, nproc=asmcheck.NPROC_JVM)
        nohook = 0
        for s in strs:
            v = vs[s["id"]]
            if not s["events"]:
                nohook += 1
            if not v["ok"]:
                item = {"clause": "sizing-" + v["why"], "class": {"form": "pcr", "n": len(s["prog"])}, "symptom": {"at": v["at"]}}
                ctx.report(item, {"kind": "sizing", "lines": cases[s["id"]].lines, "items": s["prog"], "events": s["events"], "final": s["final"], "verdict": v})
            ctx.add_class("sizing|%d|%s" % (len(s["prog"]), "".join(i["k"][0] for i in s["prog"])))
        ctx.add_suite("sizing-hook-traces", len(strs), len(strs), time.time() - t0, {"traces_without_hook_events": nohook})
        if nohook:
            raise tlc.MachineryError("sizing-loop hook events missing in %d of %d accepted assemblies: the binding of AsmSizing to translate_statements is gone "
                                     "(hooks removed or COCOASM_VERIF not honoured)" % (nohook, len(strs)))
        ctx.sample({"suite": "sizing-hook-traces", "items": strs[len(strs) // 2]["prog"], "events": strs[len(strs) // 2]["events"][:6]})


def branch_cases(mns, dists, back_dists):
    cases = []
    for mn in mns:
        for d in dists:            # forward: d bytes between the branch and its target
            prog = [stmt(mn, "rel", label="B", expr=ex(sym("T")))] + ([filler(2, d)] if d else []) + [stmt("NOP", label="T"), stmt("NOP", label="E")]
            cases.append(Case(prog, focus=1, tag="fwd%d" % d))
        for d in back_dists:       # backward: target d bytes before the branch
            prog = [stmt("NOP", label="S")] + ([dict(filler(2, d), label="T")] if d else []) + [stmt(mn, "rel", label="B" if d else "T", expr=ex(sym("T"))), stmt("NOP", label="E")]
            cases.append(Case(prog, focus=3 if d else 2, tag="back%d" % d))
    return cases


def pcr_cases(mns, dists, rnd, inner=(0,)):
    cases = []
    for mn in mns:
        for ind in (False, True):
            for d in dists:
                for n_inner in inner:
                    mid = [stmt("LDB", "pcr", label="I%d" % j, expr=ex(sym(rnd.choice(["T", "S0", "E"])))) for j in range(n_inner)]
                    fw = [stmt("NOP", label="S0"), stmt(mn, "pcr", label="P", ind=ind, expr=ex(sym("T")))] + mid + ([filler(9, d)] if d else []) + [stmt("NOP", label="T"), stmt("NOP", label="E")]
                    cases.append(Case(fw, focus=2, tag="pcr-fwd%d" % d))
                    bw = [stmt("NOP", label="S0"), (dict(filler(9, d), label="T") if d else stmt("NOP", label="T"))] + mid + [stmt(mn, "pcr", label="P", ind=ind, expr=ex(sym("T"))), stmt("NOP", label="E")]
                    cases.append(Case(bw, focus=3 + n_inner, tag="pcr-back%d" % d))
                for c, op in ((2, "+"), (2, "-")):
                    if d % 7 == 0:
                        pl = [stmt("NOP", label="S0"), stmt(mn, "pcr", label="P", ind=ind, expr=ex(sym("T"), op, num(c)))] + ([filler(9, d)] if d else []) + [stmt("NOP", label="T"), stmt("NOP", label="E")]
                        cases.append(Case(pl, focus=2, tag="pcr-const"))
    return cases


def pcr_const_cases(rnd, n):
    """label +- constant,PCR: the displacement reaches (label + constant), so the 8 / 16-bit choice has to look at the constant as well as at the span to the label -
    distances around the 8-bit limit x constants that push the displacement over it or pull it back inside, forward and backward, with undecided PCR statements inside"""
    cases = []
    consts = [1, 2, 3, 5, 60, 100, 120, 124, 125, 126, 127, 128, 129, 130, 131, 135, 200, 255, 256, 300, 1000, 32767]
    dists = [0, 1, 2, 3, 5, 60, 100, 118, 119, 120, 121, 122, 123, 124, 125, 126, 127, 128, 129, 130, 131, 135, 200, 300]
    for _ in range(n):
        mn, ind, d, c, op = rnd.choice(["LDA", "LEAX", "LDY", "STX", "JMP"]), rnd.random() < 0.3, rnd.choice(dists), rnd.choice(consts), rnd.choice("+-")
        mid = [stmt("LDB", "pcr", label="I%d" % j, expr=ex(sym(rnd.choice(["T", "S0", "E"])))) for j in range(rnd.choice([0, 0, 0, 1, 2]))]
        p = stmt(mn, "pcr", label="P", ind=ind, expr=ex(sym("T"), op, num(c, rnd.choice(["dec", "hex"]))))
        if rnd.random() < 0.5:
            prog = [stmt("NOP", label="S0"), p] + mid + ([filler(9, d)] if d else []) + [stmt("NOP", label="T"), stmt("NOP", label="E")]
            cases.append(Case(prog, focus=2, tag="pcr-const-fwd"))
        else:
            prog = [stmt("NOP", label="S0"), (dict(filler(9, d), label="T") if d else stmt("NOP", label="T"))] + mid + [p, stmt("NOP", label="E")]
            cases.append(Case(prog, focus=3 + len(mid), tag="pcr-const-back"))
    return cases


def across_org_cases(rnd, n):
    """References whose target lies across a second ORG / an ORG after code: the displacement has to follow the ADDRESSES the listing
    shows (or the program be rejected), not the sum of the statement sizes in between."""
    cases = []
    for _ in range(n):
        a = rnd.choice([0, 0x10, 0x100, 0x0E00, 0x4000])
        jump = rnd.choice([0, 1, 2, 0x40, 0x7C, 0x7E, 0x80, 0x100, 0x800, 0x7FF0, 0x9000, -0x40, -0x100]) if rnd.random() < 0.8 else rnd.randint(-0x200, 0xF000)
        d1, d2 = rnd.choice([0, 0, 1, 3, 60, 120]), rnd.choice([0, 0, 1, 3, 60, 120])
        if rnd.random() < 0.06:     # more bytes between the two statements than the address space holds
            d1, d2 = rnd.choice([(40000, 40000), (30000, 36000), (65000, 600), (60000, 5534)])
        kind = rnd.choice(["rel", "rel", "pcr"])
        mn = rnd.choice(SHORT + LONG) if kind == "rel" else rnd.choice(["LDA", "LEAX", "LDY", "JSR"])
        ref = stmt(mn, kind, label="B", expr=ex(sym("T")))
        first = [stmt("ORG", "org", expr=ex(num(a, "hex4")))] if rnd.random() < 0.7 else []
        gap1 = [filler(2, d1)] if d1 else []
        gap2 = [filler(3, d2)] if d2 else []
        b = (a + 3 + d1 + jump) & 0xFFFF
        org2 = [stmt("ORG", "org", expr=ex(num(b, "hex4")))]
        if rnd.random() < 0.5:      # forward across the ORG
            prog = first + [ref] + gap1 + org2 + gap2 + [stmt("NOP", label="T"), stmt("NOP", label="E")]
            focus = len(first) + 1
        else:                        # backward across the ORG
            prog = first + [stmt("NOP", label="T")] + gap1 + org2 + gap2 + [ref, stmt("NOP", label="E")]
            focus = len(prog) - 1
        cases.append(Case(prog, focus=focus, tag="across-org-" + kind))
    return cases


def run(ctx):
    thorough = ctx.tier == "thorough"
    rnd = random.Random(ctx.seed * 15485863 + 3)
    gates(ctx, thorough)
    sizing_replay(ctx, thorough, rnd)
    near8 = list(range(0, 4)) + list(range(117, 137))
    near16 = list(range(32750, 32780))
    if thorough:
        asmcheck.run_suite(ctx, "branch-sweep", branch_cases(SHORT + LONG, list(range(0, 141)) + near16[::3], list(range(0, 141)) + near16[::3]))
        asmcheck.run_suite(ctx, "pcr-sweep", pcr_cases(["LDA", "LDY", "LEAX", "STD", "JSR", "CMPU", "INC"], list(range(0, 141)) + near16, rnd, inner=(0, 1, 2, 3)))
    else:
        asmcheck.run_suite(ctx, "branch-sweep", branch_cases(SHORT + LONG, near8 + [32765, 32767], near8 + [32763, 32766]))
        asmcheck.run_suite(ctx, "pcr-sweep", pcr_cases(["LDA", "LDY", "LEAX"], near8 + near16[10:26:3], rnd, inner=(0, 2)))
    # bare numeric n,PCR / [n,PCR]: the displacement is n itself (TLC-exported table rows, boundary values x spellings, plus redraws)
    stmts, wall = asmgen.table(ctx.tier, "valid")
    pcr = [s for s in stmts if s["form"] == "pcr"]
    cases = [asmcheck.framed(s, "pcr-numeric") for s in pcr[::1 if thorough else 3]]
    for _ in range(20000 if thorough else 2500):
        t, rk = asmgen.random_variant(rnd, rnd.choice(pcr))
        cases.append(asmcheck.framed(t, "pcr-numeric-random", **rk))
    asmcheck.run_suite(ctx, "pcr-numeric", cases)
    asmcheck.run_suite(ctx, "pcr-label-plus-constant", pcr_const_cases(rnd, 40000 if thorough else 3000))
    asmcheck.run_suite(ctx, "across-org", across_org_cases(rnd, 20000 if thorough else 2000))
    ctx.cov["rule"] = ("TLC-enumerated sizing programs (fillers around the 8-bit limit x label,PCR statements with any target) replayed with the sizing-loop "
                       "hooks validated step by step against AsmSizing!Step; distance sweeps for all 38 branch mnemonics and label,PCR / [label,PCR] / "
                       "label+-n,PCR forward and backward with 0-3 undecided PCR statements inside the span; bytes judged by the certificate "
                       "(displacement reaches the target, field wide enough, out-of-range short branch rejected). distinct_nontrivial = spec classes + sizing shapes")
    ctx.assumptions += ["fillers are RMB / SETDP statements whose size does not depend on the assembler's width choices"]


def replay(ctx, rp):
    return asmcheck.replay_case(ctx, rp["replay"])
