"""C12 - no accepted statement ever yields a malformed or silently truncated instruction."""
import random
from harness import tlc, asmgen, asmcheck, asmio, proggen
from harness.asmcheck import Case, framed
from harness.props import c01, c04

ALPHABET = "0123456789ABCDEFXYUSPCRD$%#<>[],+-*/'@LV.z"


def mutate(rnd, text):
    if not text:
        return rnd.choice(ALPHABET)
    k = rnd.randrange(len(text))
    r = rnd.random()
    if r < 0.25:
        return text[:k] + text[k + 1:]
    if r < 0.45:
        return text[:k] + text[k] + text[k:]
    if r < 0.75:
        return text[:k] + rnd.choice(ALPHABET) + text[k + 1:]
    if r < 0.9:
        return text[:k] + rnd.choice(ALPHABET) + text[k:]
    return text[:k] + text[k + 1:k + 2] + text[k:k + 1] + text[k + 2:]


def raw_case(mn, optext, tag):
    s = asmio.stmt(mn, "raw", optext=optext, optcodes=[ord(c) for c in optext.upper()])
    v = asmio.stmt("EQU", "equ", label="V", expr=asmio.ex(asmio.num(5)))
    l1 = asmio.stmt("NOP", label="L")
    l2 = asmio.stmt("NOP", label="L2")
    return Case([v, l1, s, l2], focus=3, tag=tag)


def same_text_cases(rnd, bad, good, n):
    by_text = {}
    for g in good:
        by_text.setdefault(asmio.roperand(g), []).append(g)
    pool = [b for b in bad if asmio.roperand(b) in by_text]
    rnd.shuffle(pool)
    cases = []
    for b in pool[:n]:
        g = rnd.choice(by_text[asmio.roperand(b)])
        l1 = asmio.stmt("NOP", label="L1")
        l2 = asmio.stmt("NOP", label="L2")
        if rnd.random() < 0.75:
            cases.append(Case([l1, dict(g), dict(b), l2], focus=3, tag="invalid-after-valid"))
        else:
            g2 = rnd.choice(by_text[asmio.roperand(b)])
            cases.append(Case([l1, dict(g), dict(g2), l2], focus=3, tag="valid-after-valid"))
    return cases


def run(ctx):
    thorough = ctx.tier == "thorough"
    rnd = random.Random(ctx.seed * 104729 + 12)
    c01.gates(ctx, thorough)
    bad, wall = asmgen.table(ctx.tier, "invalid")
    good, wall2 = asmgen.table(ctx.tier, "valid")
    ctx.cov["suites"]["export"] = {"tlc_exported_illtyped": len(bad), "tlc_exported_valid": len(good), "wall_s": round(wall + wall2, 2)}
    # (a) spec -> code: the property's list of ill-typed forms expanded over every mnemonic row (must be rejected)
    step = 1 if thorough else 2
    asmcheck.run_suite(ctx, "illtyped-table", [framed(s, "invalid") for s in bad[rnd.randrange(step)::step]])
    # the same OPERAND TEXT first on a mnemonic where it is valid, then on the one where it is not (and the other way round): whether a statement is
    # accepted depends on its own mnemonic, not on what an earlier statement with the same operand text was (memo tables keyed by the operand text)
    asmcheck.run_suite(ctx, "same-operand-text-after-valid", same_text_cases(rnd, bad, good, 20000 if thorough else 3000))
    # every VALID cell of the table too: what is accepted decodes as one instruction and fills exactly the space the listing reserves
    good, _w = asmgen.table(ctx.tier, "valid")
    asmcheck.run_suite(ctx, "valid-cells", [framed(s, "cell") for s in asmgen.every_cell(good, rnd)])
    # (a') out-of-range values drawn at random inside the same statement shapes
    n = 100000 if thorough else 8000
    cases = []
    for _ in range(n):
        t, rk = asmgen.random_variant(rnd, rnd.choice(good))
        cases.append(framed(t, "random-values", **rk))
    asmcheck.run_suite(ctx, "random-values", cases)
    # (a'') two-term constant expressions whose result leaves the operand's range (or just stays inside it)
    from harness.asmio import ex, num
    cases = []
    pairs = [(0, "-", 40000), (0, "-", 65400), (1000, "-", 40000), (40000, "+", 40000), (300, "*", 300), (255, "+", 1), (250, "+", 5), (0, "-", 128), (0, "-", 129),
             (0, "-", 32768), (0, "-", 32769), (65535, "+", 1), (65535, "*", 2), (128, "*", 2), (127, "+", 1), (0, "-", 65535), (16, "*", 4096), (1, "-", 65535)]
    shapes = [s for s in good if asmgen.uses_value(s) and s["mn"] in ("LDA", "LDX", "STA", "JMP", "LEAX", "CMPY", "ANDCC", "LDD", "INC")]
    for s in shapes[::max(1, len(shapes) // (4000 if thorough else 400))]:
        for a, op, b in pairs:
            cases.append(framed(asmgen.with_expr(s, ex(num(a, rnd.choice(["dec", "hex"])), op, num(b, rnd.choice(["dec", "hex4"])))), "expr-range"))
    asmcheck.run_suite(ctx, "expression-results-out-of-range", cases)
    # a label's address on every width boundary, in every fixed-width operand position (a value too wide for the field is rejected, not cut)
    asmcheck.run_suite(ctx, "label-boundary", c04.label_boundary_cases(rnd, 20000 if thorough else 1000))
    asmcheck.run_suite(ctx, "shared-label-mixed-width", c04.shared_label_cases(rnd, 10000 if thorough else 800))
    # (b) code -> spec: single-edit mutations of valid operand strings (no abstract form: decode clauses only)
    n = 400000 if thorough else 30000
    cases = []
    for _ in range(n):
        s = rnd.choice(good)
        cases.append(raw_case(s["mn"], mutate(rnd, asmio.roperand(s)), "mutation"))
    asmcheck.run_suite(ctx, "mutations", cases)
    # (c) random strings over the operand alphabet on every mnemonic
    n = 400000 if thorough else 30000
    mns = sorted(set(s["mn"] for s in good))
    cases = []
    for _ in range(n):
        txt = "".join(rnd.choice(ALPHABET) for _ in range(rnd.choice([1, 2, 2, 3, 3, 4, 5, 6, 8])))
        cases.append(raw_case(rnd.choice(mns), txt, "random-string"))
    asmcheck.run_suite(ctx, "random-strings", cases)
    # accepted free text: single-line mutations of valid programs (data directives included), judged with "raw" statements
    from harness.props import c13
    corpus = [c13.README] + [Case(proggen.gen_program(rnd, 3, 14, faults=False)[0]).lines for _ in range(300)]
    muts = []
    for _ in range(150000 if thorough else 12000):
        lines = list(rnd.choice(corpus))
        k = rnd.randrange(len(lines))
        lines[k] = c13.mutate_line(rnd, lines[k])
        muts.append(lines)
    asmcheck.run_text_suite(ctx, "mutated-programs-accepted-text", muts)
    ctx.cov["rule"] = ("(a) TLC-enumerated statements that the mode table / operand widths forbid (must be rejected), (a') random values in valid shapes, "
                       "(b) single-edit mutations of valid operand strings, (c) random operand strings; whatever is accepted must decode (M6809!Decode) as exactly "
                       "one instruction of that mnemonic consuming all bytes, with byte count = reserved space. distinct_nontrivial = spec classes of the statement under test")
    ctx.assumptions += ["for free-text operands there is no abstract form: only decode/size clauses are judged (DESIGN.md 3.2)"]


def replay(ctx, rp):
    return asmcheck.replay_case(ctx, rp["replay"])
