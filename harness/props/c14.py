"""C14 - every cassette image written is a well-formed CoCo tape stream: same runs as C06, owns the structural clauses."""
from harness.props.c06 import run, replay  # noqa
