"""C09 / C10 / C15(host) - command-line histories on one target path (one set of runs; each property owns its clauses)."""
import random, time, os, multiprocessing as mp
from harness import tlc, hostrun

OWN = {"C10": {"onlyappend", "complete", "rewritten", "toldwhy", "allowed", "notraceback", "readonly", "wrote"},
       "C09": {"preserves", "happens", "sniff", "allowed", "listed"},
       "C15": {"capacity", "construct", "oneslot"},
       "C08": {"complete"},          # every image written through the host path is a complete, consistent image of the requested kind (DiskBytes!FsckOK for disks)
       "C11": {"newpath"}, "C16": {"newpath"}}
# "allowed" (the table) is reported under the property whose cell it is: decided per item below


def owner_of_allowed(cls):
    if cls["app"] and ((cls["pre"] == "cas" and cls["sw"] == "cas") or (cls["pre"] == "dsk" and cls["sw"] == "dsk")):
        return "C09"
    return "C10"


def gates(ctx, thorough):
    r = tlc.check_model("MC_Host", "MC_Host3" if thorough else "MC_Host", workers=10, heap="12g", timeout=3000)
    ctx.add_model("MC_Host(depth %d)" % (3 if thorough else 2), r, {"invariants": ["PropInv (OnlyAppendModifies, CompleteImage, AppendPreserves, AppendHappens, CapacityRespected, NewPathHoldsNew)", "NeverLost", "SamePathTwice"]})


def judge(ctx, name, recs, t0, own=None):
    broken = [r for r in recs if r.get("construct_error")]
    for r in (broken if "construct" in (own or OWN[ctx.prop]) else []):
        # the tool itself could not store files that fit on the medium while the harness built the initial content
        ctx.report({"clause": "construct", "class": {"pre": r["init"]["kind"], "nfiles": len(r["init"]["files"])}, "symptom": {"why": r["construct_error"].split(":")[0]}},
                   {"kind": "host", "init": r["init"], "error": r["construct_error"]})
    recs = [r for r in recs if not r.get("construct_error")]
    saves = sum(1 for r in recs for e in r["events"] if e["cmd"]["sw"] != "list")
    opens = sum(1 for r in recs for e in r["events"] for hk in e["hooks"] if hk["ev"] == "Open")
    if saves > 20 and opens == 0:
        raise tlc.MachineryError("%s: no VirtualFile Open event in %d save steps: the sniff / wrote clauses are vacuous (hooks removed or COCOASM_VERIF not honoured)" % (name, saves))
    verd, st = tlc.bulk("Tr_Host", recs, nproc=6, min_chunk=30, heap="6g", timeout=3000)
    own = own or OWN[ctx.prop]
    nv = nsteps = 0
    for r in recs:
        v = verd[r["id"]]
        for k, stp in enumerate(v["steps"]):
            nsteps += 1
            cls = stp["class"]
            ctx.add_class("host|" + "|".join(str(cls[x]) for x in ("tool", "sw", "app", "named", "pre", "big", "newn", "post")))
            for c in stp["failed"]:
                if c not in own:
                    continue
                if c == "allowed" and owner_of_allowed(cls) != ctx.prop:
                    continue
                item = {"clause": c, "class": cls, "symptom": {"exit": r["events"][k]["exit"]}}
                rp = {"kind": "host", "init": r["init"], "step": k, "cmds": [e["cmd"] for e in r["events"][:k + 1]], "stdout": r["events"][k]["stdout"],
                      "post_len": r["events"][k]["post"]["len"], "hooks": r["events"][k]["hooks"], "judged_post": stp["post"]}
                if ctx.report(item, rp) == "violation":
                    nv += 1
    ctx.add_suite(name, len(recs), nsteps, time.time() - t0, {"violating_items": nv})
    r = recs[len(recs) // 2]
    ctx.sample({"suite": name, "init": r["init"], "cmds": [e["cmd"] for e in r["events"]], "judged": [s["post"]["kind"] for s in verd[r["id"]]["steps"]]})


def replay_histories(hists, extra_every=0):
    os.environ["VERIF_SCRATCH"] = tlc.OUT
    if extra_every:
        # every n-th history: each command also writes its other kinds of output to other, new paths (independence of the outputs of one command)
        hists = [dict(h, extra=True) if k % extra_every == extra_every - 1 else h for k, h in enumerate(hists)]
    with mp.Pool(16) as pool:
        return pool.map(hostrun.replay, list(enumerate(hists)), chunksize=4)


def model_histories(ctx, rnd, n_sample, depth_cfg="MC_HostExport"):
    recs, r = tlc.export("MC_Host", depth_cfg, workers=4, heap="6g")
    seen, hists = set(), []
    for h in recs:
        key = repr(h)
        if key in seen:
            continue
        seen.add(key)
        if h["init"]["kind"] == "dsk" and len(h["init"]["files"]) >= 3:
            h["full"] = True
        hists.append(h)
    rnd.shuffle(hists)
    # every first command from every initial content is kept (the full depth-1 matrix), the rest is a seeded sample
    first, rest, keys = [], [], set()
    for h in hists:
        k1 = repr((h["init"], h["cmds"][0]))
        if k1 not in keys:
            keys.add(k1)
            first.append(h)
        else:
            rest.append(h)
    # adversarial content the model does not distinguish: a disk one of whose files holds a cassette recording as its data
    import copy
    extra = []
    for h in first:
        if h["init"]["kind"] == "dsk" and not h.get("full"):
            g = copy.deepcopy(h)
            g["init"]["files"] = [101, 150]
            extra.append(g)
    # ... and a tape of arbitrary bytes that is exactly as long as a disk image (the tool tries its disk reader on such a file first): it is a tape all the same
    for h in first:
        if h["init"]["kind"] == "cas" and h["init"]["big"]:
            g = copy.deepcopy(h)
            g["init"]["files"] = [160, 161, 162, 163]
            extra.append(g)
    return first + extra + rest[:n_sample], len(hists)


def same_path_histories():
    """ONE invocation that names the target path under two switches (assembler.py p.asm --to_bin P --to_cas P [--append]; file_util likewise): the tool saves twice,
    and what the first save created is an existing target for the second.  Judged by the table composed with itself (Tr_Host!AllowedSeq, either order)."""
    inits = [{"kind": "absent", "big": False, "files": []}, {"kind": "empty", "big": False, "files": []}, {"kind": "cas", "big": False, "files": [101, 102]},
             {"kind": "dsk", "big": False, "files": [101, 102]}, {"kind": "raw", "big": False, "files": [101]}, {"kind": "junk", "big": False, "files": []}]
    lst = {"tool": "util", "sw": "list", "sw2": "", "app": False, "named": True, "new": [], "srcn": 0}
    hists = []
    for init in inits:
        for sw, sw2 in (("bin", "cas"), ("bin", "dsk"), ("cas", "dsk")):
            for app in (False, True):
                for named in (True, False):
                    hists.append({"init": init, "cmds": [{"tool": "asm", "sw": sw, "sw2": sw2, "app": app, "named": named, "new": [9], "srcn": 0}, lst]})
                for srcn, new in ((1, [201]), (2, [201, 202]), (2, [201])):
                    hists.append({"init": init, "cmds": [{"tool": "util", "sw": sw, "sw2": sw2, "app": app, "named": True, "new": new, "srcn": srcn}, lst]})
    return hists


def run(ctx):
    thorough = ctx.tier == "thorough"
    rnd = random.Random(ctx.seed * 472882027 + int(ctx.prop[1:]))
    gates(ctx, thorough)
    t0 = time.time()
    hists, total = model_histories(ctx, rnd, 2500 if thorough else 150)
    ctx.cov["suites"]["export"] = {"tlc_exported_histories": total, "replayed": len(hists)}
    recs = replay_histories(hists, extra_every=3)
    judge(ctx, "model-histories", recs, t0)
    if ctx.prop == "C10":
        t0 = time.time()
        judge(ctx, "same-path-twice-in-one-invocation", replay_histories(same_path_histories()), t0)
    ctx.cov["rule"] = ("histories of <= 2 (thorough: sampled 3) invocations of assembler.py / file_util.py on one target path: {--to_bin, --to_cas, --to_dsk} x {append, not} x "
                       "existing target {absent, 0 bytes, tape, tape >= 161,280 bytes, disk, full disk, raw binary, junk} x {named, unnamed program / all, one, no file selected}; the "
                       "full first-step matrix plus a seeded sample of the TLC-exported two-step histories; run in-process in a temp dir; the post content is read by the "
                       "specification's tape/disk readers (C10 also: one invocation naming the target under two switches, judged by the table composed with itself) and judged against Host!Allowed and the separately phrased properties. distinct_nontrivial = (tool, switch, append, "
                       "named, pre kind, big, new files, post kind) classes")
    ctx.assumptions += ["the kind of an existing target is known by construction (spec state), never re-derived with the tool's sniffing"]


def replay(ctx, rp):
    print(rp["replay"])
    return 0
