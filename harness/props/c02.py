"""C02 - listing addresses, symbol values and the emitted image agree."""
import random
from harness import tlc, asmgen, asmcheck, asmio, proggen
from harness.asmcheck import Case, framed
from harness.props import c01


def run(ctx):
    thorough = ctx.tier == "thorough"
    rnd = random.Random(ctx.seed * 67867967 + 2)
    c01.gates(ctx, thorough)
    # S1: spec -> code, the programs of the bounded reference model (all of <=2 statements, a TLC-drawn subset of 3)
    recs, r = tlc.export("Gen_Asm", env={"N3": "60000" if thorough else "6000"}, extra=["-seed", str(ctx.seed + 1)])
    ctx.cov["suites"]["export"] = {"tlc_exported_programs": len(recs), "wall_s": round(r.wall, 2)}
    asmcheck.run_suite(ctx, "model-programs", [Case(x["prog"], tag="model") for x in recs])
    # S2: one labelled frame for every opcode-table cell x sub-form (reserved size of every row vs its bytes)
    stmts, wall = asmgen.table(ctx.tier, "valid")
    step = 1 if thorough else 5
    sample = stmts[rnd.randrange(step)::step]
    # ... and EVERY cell (mnemonic x form x sub-form x indirect x forced mode) at least twice in every run, whatever the sample drew
    # (an inherent instruction has exactly one statement: a wrong reserved size for it must not depend on the draw)
    every = asmgen.every_cell(stmts, rnd)
    asmcheck.run_suite(ctx, "cell-frames", [framed(s, "cell") for s in sample + every])
    from harness.props import c04
    asmcheck.run_suite(ctx, "shared-label-mixed-width", c04.shared_label_cases(rnd, 10000 if thorough else 800))
    # a label (and label +- constant) whose address sits on a width boundary, in every fixed-width operand position: the bytes emitted for the statement are as many
    # as the space the listing reserves for it, and the statements after it are where the listing says (a field rendered wider than the field's size shifts the image)
    asmcheck.run_suite(ctx, "label-boundary", c04.label_boundary_cases(rnd, 20000 if thorough else 1000))
    # S3: code -> spec, random programs; every statement followed by a labelled one
    n_small, n_long = (60000, 4000) if thorough else (5000, 300)
    cases = []
    for _ in range(n_small):
        prog, kind = proggen.gen_program(rnd, 3, 12)
        cases.append(Case(prog, tag=kind))
    for _ in range(n_long):
        prog, kind = proggen.gen_program(rnd, 20, 200 if thorough else 80, all_labelled=True)
        cases.append(Case(prog, tag="long-" + kind))
    traces, verd, extras = asmcheck.run_suite(ctx, "random-programs", cases)
    for c in cases:
        ctx.add_class("prog|" + c.tag + "|" + str(min(len(c.prog) // 10, 9)))
    # the pass structure itself: pass-boundary hook events of random programs validated against AsmPasses (collect, translate, size, lay, fix, backpatch)
    pcases = []
    for _ in range(20000 if thorough else 2500):
        prog, kind = proggen.gen_program(rnd, 3, 16, faults=rnd.random() < 0.2)
        pcases.append(Case(prog, tag="passes-" + kind))
    asmcheck.run_pass_traces(ctx, "pass-traces", pcases)
    # ... and the step predicates themselves: satisfiable by a machine, and together sufficient for the end-to-end statement
    cfg = "MC_AsmPasses" if thorough else "MC_AsmPasses3"
    r = tlc.check_model("MC_AsmPasses", cfg, workers=8, heap="4g", extra=["-coverage", "1"])
    ctx.add_model(cfg, r, {"invariants": ["StepsOK", "EndToEnd", "Perturbed"], "properties": ["SizeMonotone"]})
    # accepted free text: single-line mutations of valid programs (data directives included), judged with "raw" statements
    from harness.props import c13
    corpus = [c13.README] + [Case(proggen.gen_program(rnd, 3, 14, faults=False)[0]).lines for _ in range(300)]
    muts = []
    for _ in range(150000 if thorough else 12000):
        lines = list(rnd.choice(corpus))
        k = rnd.randrange(len(lines))
        lines[k] = c13.mutate_line(rnd, lines[k])
        muts.append(lines)
    asmcheck.run_text_suite(ctx, "mutated-programs-accepted-text", muts)
    # programs that INCLUDE a (label-free) file once, twice or three times: what is listed and what is emitted must still agree statement by statement
    import os
    incdir = os.path.join(tlc.OUT, "c02inc")
    os.makedirs(incdir, exist_ok=True)
    bodies = [[" NOP \n"], [" LDA #1\n", " STA $0400\n"], [" FCB 1,2,3\n", " RMB 5\n", " FDB $1234\n"], [" LEAX 2,PCR\n", " BRA *+2\n"][:1] + [" CLRA \n"], [" FCC /text/\n"]]
    for j, b in enumerate(bodies):
        with open(os.path.join(incdir, "common%d.asm" % j), "w") as f:
            f.write("".join(b))
    incs = []
    for _ in range(6000 if thorough else 600):
        lines = list(rnd.choice(corpus[1:]))
        inc = " INCLUDE %s\n" % os.path.join(incdir, "common%d.asm" % rnd.randrange(len(bodies)))
        for _k in range(rnd.choice([1, 2, 2, 3])):
            lines.insert(rnd.randrange(1, len(lines) + 1), inc)
        incs.append(lines)
    asmcheck.run_text_suite(ctx, "include-repeated-accepted-text", incs)
    ctx.cov["rule"] = ("programs of the bounded reference model (TLC-exported), one labelled frame per opcode-table cell, and seeded random programs of 3-200 statements "
                       "(all operand forms, labels on every statement in the long ones, EQUs before/after, ORG none/first/late/repeated at 8 origins, duplicate and undefined "
                       "labels). Judged by TLC: addresses advance by the bytes emitted, image = concatenation placed at the reported origin, every symbol-table line, "
                       "duplicate/undefined rejected. distinct_nontrivial = spec statement classes + program shape classes")


def replay(ctx, rp):
    return asmcheck.replay_case(ctx, rp["replay"])
