"""C16 - file_util conversions carry every selected file across unchanged."""
import random, time, os, tempfile, shutil, multiprocessing as mp
from harness import tlc, hostrun, containers as ct
from harness.props import c10

NAMESETS = [["ALPHA", "BETA", "GAMMA"], ["alpha", "beta"], ["MiXeD", "lower", "UPPER"], ["A", "ABCDEFGH"], ["ONE"], ["one"]]


def variant(name, how):
    return {"same": name, "upper": name.upper(), "lower": name.lower(), "swap": name.swapcase()}[how]


def write_image(path, kind, files):
    if kind == "cas":
        open(path, "wb").write(bytes(ct.write_tape(files)))
    else:
        from cocoasm.virtualfiles.disk import DiskFile
        d = DiskFile()
        d.add_files([ct.to_coco(f) for f in files])
        open(path, "wb").write(bytes(d.get_buffer()))


def step_record(hid, cat, cmd, target, code, out, hooks_t):
    post, _ = hostrun.observe(target, cmd["sw"], True)
    ev = {"cmd": cmd, "same": not os.path.exists(target), "exit": code, "msg": len(out.strip()) > 0, "tb": "TRACEBACK" in out, "post": post, "hooks": [], "stdout": out[-200:], "listed": []}
    return {"id": hid, "init": {"kind": "absent", "big": False, "files": []}, "cat": [{"id": i, "f": ct.jfile(f)} for i, f in sorted(cat.items())], "events": [ev]}


def case_files(case):
    rnd = random.Random(case["seed"])
    files = []
    for j, nm in enumerate(case["names"]):
        ftype, dtype = case["kinds"][j % len(case["kinds"])]
        files.append(ct.mkfile(nm, ct.content(rnd, "rand", case["lens"][j % len(case["lens"])]), ftype, dtype, 0x2000 + j if ftype == 2 else 0, 0x2004 + j if ftype == 2 else 0,
                               ext="BIN" if ftype == 2 else "BAS"))
    return files


def one(args):
    file_util = hostrun.import_cli("file_util")
    k, case = args
    W = tempfile.mkdtemp(prefix="c16", dir=os.environ.get("VERIF_SCRATCH"))
    out_recs = []
    try:
        files = case_files(case)
        cat = {500 + j: f for j, f in enumerate(files)}
        src = os.path.join(W, "src." + case["srckind"])
        if case.get("srcbuf") is not None:             # a tape recorded WITH GAPS, written by the specification's writer (gap flag $FF, leaders between the blocks)
            open(src, "wb").write(bytes(case["srcbuf"]))
        else:
            write_image(src, case["srckind"], files)
        sel_ids = case["select"]                       # None = all, else list of indices
        argv = [src, "--to_" + case["sw"], os.path.join(W, "t1." + case["sw"])]
        selnames = None
        if sel_ids is not None:
            selnames = [variant(case["names"][j], case["how"]) for j in sel_ids] or ["NOSUCH"]
            argv += ["--files"] + selnames
        # exactly the files whose names match one of the requested names without regard to case - ALL of them when several files carry that name
        new = [500 + j for j in range(len(files)) if selnames is None or case["names"][j].upper() in {n.upper() for n in selnames}]
        cmd = {"tool": "util", "sw": case["sw"], "sw2": "", "app": False, "named": True, "new": new, "srcn": len(files)}
        # one invocation, several targets: the same selection also goes to the other kinds of image (other, new paths); what lands at each of them is judged
        # on its own - a file handed to one writer must reach the next writer unchanged
        others = [x for x in ("cas", "dsk", "bin") if x != case["sw"] and (x != "bin" or len(files) == 1)] if case.get("multi") else []
        for x in others:
            argv += ["--to_" + x, os.path.join(W, "m." + x)]
        code, out = hostrun.run_main(file_util, argv)
        out_recs.append(step_record(k * 4, cat, cmd, argv[2], code, out, None))
        for j, x in enumerate(others):
            out_recs.append(step_record(k * 4 + 2 + j, cat, dict(cmd, sw=x), os.path.join(W, "m." + x), code, out, None))
        # convert back: the round trip must return the selected file set
        if case["sw"] in ("cas", "dsk") and os.path.exists(argv[2]) and new and os.path.getsize(argv[2]) > 0:
            back = "cas" if case["sw"] == "dsk" else "dsk"
            argv2 = [argv[2], "--to_" + back, os.path.join(W, "t2." + back)]
            cmd2 = {"tool": "util", "sw": back, "sw2": "", "app": False, "named": True, "new": new, "srcn": len(new)}
            code2, out2 = hostrun.run_main(file_util, argv2)
            out_recs.append(step_record(k * 4 + 1, cat, cmd2, argv2[2], code2, out2, None))
        return out_recs
    finally:
        shutil.rmtree(W, ignore_errors=True)


def cases(rnd, n):
    out = []
    for k in range(n):
        names = rnd.choice(NAMESETS)
        nf = len(names)
        sel = rnd.choice([None, None, [0], list(range(nf)), [nf - 1], [], [j for j in range(nf) if rnd.random() < 0.5]])
        sw = rnd.choice(["cas", "dsk", "dsk", "cas", "bin"])
        srckind = rnd.choice(["cas", "dsk"])
        if k % 9 == 4:
            # a tape may hold several files of the same name (also: differing only in case / behind the 8th character): all of them are carried across
            names, sel, srckind, sw = rnd.choice([["GAME", "LOADER", "GAME"], ["prog", "PROG"], ["PROGRAM10", "PROGRAM11", "OTHER"], ["GAME", "GAME", "LAST"]]), None, "cas", rnd.choice(["cas", "cas", "dsk"])
            if names[0] != "PROGRAM10" and rnd.random() < 0.6:
                sel = rnd.choice([[0], [1], [0, len(names) - 1], [len(names) - 1]])
        out.append({"seed": rnd.randrange(1 << 30), "names": names, "srckind": srckind, "sw": sw, "select": sel,
                    "how": rnd.choice(["same", "upper", "lower", "swap"]), "lens": [rnd.choice([1, 20, 255, 256, 300, 2294, 2295, 2304, 5000]) for _ in range(3)] if k % 7 != 3 else [rnd.choice([30000, 20000, 52000, 16000, 100]) for _ in range(3)],   # every 7th: files of many granules
                    "kinds": [rnd.choice([(2, 0), (2, 0), (0, 0), (1, 255), (2, 255), (1, 0), (0, 255), (3, 255)]) for _ in range(3)], "gapped": rnd.random() < 0.3, "multi": k % 4 == 1})
    return out


def run(ctx):
    thorough = ctx.tier == "thorough"
    rnd = random.Random(ctx.seed * 573259391 + 16)
    c10.gates(ctx, thorough)
    t0 = time.time()
    cs = cases(rnd, 3000 if thorough else 260)
    gapped = [(k, c) for k, c in enumerate(cs) if c["srckind"] == "cas" and c["gapped"]]
    if gapped:
        ins = [{"id": k, "files": [dict(ct.jfile(f), gap=255) for f in case_files(c)], "lay": {"blank": 0, "leader": 128, "gap": rnd.choice([1, 64, 128])}} for k, c in gapped]
        bufs, _ = tlc.bulk("Gen_Tape", ins, nproc=6, min_chunk=20, heap="4g")
        for k, c in gapped:
            c["srcbuf"] = bufs[k]["buffer"]
    # ... and source disks written by the specification's writer: granule chains in any order, killed directory entries before / between the files
    holed = [(k, c) for k, c in enumerate(cs) if c["srckind"] == "dsk" and c["gapped"]]
    if holed:
        ins = []
        for k, c in holed:
            files = case_files(c)
            free = list(range(68))
            rnd.shuffle(free)
            chains = []
            for f in files:
                extra = [x for x in ct.KINDS.values() if x[0] == f["type"] and x[1] == f["dtype"]][0][2]
                chains.append([free.pop() for _ in range((len(f["data"]) + extra) // ct.GB + 1)])
            slots = sorted(rnd.sample(range(1, rnd.choice([len(files) + 1, len(files) + 3, 20]) + 1), len(files)))
            ins.append({"id": k, "files": [ct.jfile(f) for f in files], "chains": chains, "slots": slots})
        imgs, _ = tlc.bulk("Gen_Disk", ins, cfg="Gen_Disk", nproc=6, min_chunk=8, heap="6g")
        for k, c in holed:
            c["srcbuf"] = ct.expand_sparse(imgs[k])
    os.environ["VERIF_SCRATCH"] = tlc.OUT
    with mp.Pool(16) as pool:
        recs = [r for rs in pool.map(one, list(enumerate(cs)), chunksize=4) for r in rs]
    verd, st = tlc.bulk("Tr_Host", recs, nproc=6, min_chunk=30, heap="6g", timeout=3000)
    nv = 0
    for r in recs:
        case = cs[r["id"] // 4]
        stp = verd[r["id"]]["steps"][0]
        cls = dict(stp["class"], srckind=case["srckind"] if r["id"] % 4 != 1 else case["sw"], how=case["how"] if case["select"] is not None else "all",
                   lowernames=any(n != n.upper() for n in case["names"]), back=r["id"] % 4 == 1, multi=r["id"] % 4 >= 2, gapped=bool(case["gapped"]),
                   nonml=any(k != (2, 0) for k in [tuple(x) for x in case["kinds"]][:len(case["names"])]))
        ctx.add_class("c16|" + "|".join(str(cls[x]) for x in ("srckind", "sw", "how", "lowernames", "back", "newn", "post", "gapped", "multi")))
        for c in stp["failed"]:
            if c not in ("allowed", "newpath", "complete", "notraceback"):
                continue
            item = {"clause": c, "class": cls, "symptom": {"exit": r["events"][0]["exit"]}}
            if ctx.report(item, {"kind": "c16", "case": case, "stdout": r["events"][0]["stdout"], "judged_post": stp["post"], "step": {0: "forward", 1: "back"}.get(r["id"] % 4, "another target of the same invocation")}) == "violation":
                nv += 1
    ctx.add_suite("conversions", len(recs), len(recs), time.time() - t0, {"violating_items": nv})
    ctx.sample({"case": cs[0], "judged": verd[recs[0]["id"]]["steps"][0]["post"]})
    ctx.cov["rule"] = ("source image {tape, disk} x file sets (upper / lower / mixed-case names, ML / BASIC / ASCII, boundary lengths) x target {tape, disk, binary} x selection "
                       "{all, one, last, several, none} spelled as stored / upper / lower / case-swapped, and the conversion back to the source kind; every 4th invocation names several targets (--to_cas, --to_dsk and, for a single file, --to_bin together) and each target is judged; run through file_util.py "
                       "in-process; the targets are parsed by the specification's readers and judged with Host!Allowed (exactly the selected files, in source order, identical "
                       "type / addresses / data; --to_bin only for a single-file image). distinct_nontrivial = conversion classes")


def replay(ctx, rp):
    print(rp["replay"])
    return 0
