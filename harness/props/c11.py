"""C11 - the saved image holds the assembled program, at its origin, under its name."""
import random, time, os, re, tempfile, shutil, multiprocessing as mp
from harness import tlc, hostrun, containers as ct, asmio
from harness.props import c10


def one(args):
    assembler, file_util = hostrun.import_cli("assembler", "file_util")
    k, cfg = args
    W = tempfile.mkdtemp(prefix="c11", dir=os.environ.get("VERIF_SCRATCH"))
    try:
        lines = []
        if cfg["src"] in ("nam", "both"):
            lines.append(" NAM %s\n" % cfg["name"])
        if cfg["org"] >= 0:
            lines.append(" ORG $%04X\n" % cfg["org"])
        size = cfg["size"]
        if size == 1:
            lines.append("START RTS \n")
        else:
            lines.append("START LDA #1\n")
            fill = size - 3
            if cfg.get("marker") and fill >= 4:     # the program's own bytes look like a cassette block header ($55 $3C type length)
                lines.append(" FDB $553C\n")
                lines.append(" FCB $%02X,$%02X\n" % ((0x01, 0x02) if cfg["marker"] == 1 else (0xFF, 0x00)))
                fill -= 4
            if fill > 0:
                lines.append(" RMB %d\n" % fill)
            if size >= 3:
                lines.append("LAST RTS \n")
        endlabel = "LAST" if (cfg["endop"] and size >= 3 and cfg.get("marker") == 2) else "START"     # END names the first statement or a later one
        if cfg["endop"]:
            lines.append(" END %s\n" % endlabel)
        src = os.path.join(W, "p.asm")
        open(src, "w").write("".join(lines))
        rec = asmio.assemble(list(lines))
        outs = {s: os.path.join(W, "out." + s) for s in ("bin", "cas", "dsk")}
        argv = [src]
        for s in cfg["sw"]:
            argv += ["--to_" + s, outs[s]]
        cli_name = "cli" + cfg["name"][::-1] if cfg["src"] == "both" else cfg["name"]
        if cfg["src"] in ("cli", "both"):
            argv += ["--name", cli_name]
        code, out = hostrun.run_main(assembler, argv)
        expected = cfg["name"] if cfg["src"] in ("nam", "both") else (cli_name if cfg["src"] == "cli" else "")
        t = {"id": k, "image": rec["image"], "origin": rec["origin"], "entry": sorted(set([rec["origin"]] + ([x["v"] for x in rec["symtab"] if x["s"] == endlabel] if cfg["endop"] else []))), "name": ct.codes(expected),
             "want": {s: (s in cfg["sw"]) for s in ("bin", "cas", "dsk")}, "asm_outcome": rec["outcome"], "exit": code}
        for s in ("bin", "cas", "dsk"):
            p, b = hostrun.observe(outs[s], s, True)
            t[s] = p
        for s in ("cas", "dsk"):
            lst = {"ok": False, "files": []}
            if os.path.exists(outs[s]):
                c2, o2 = hostrun.run_main(file_util, [outs[s], "--list"])
                names = re.findall(r"Filename:\s+(.*)", o2)
                lens = re.findall(r"Data Len:\s+(\d+) bytes", o2)
                loads = re.findall(r"Load Addr:\s+\$([0-9A-Fa-f]+)", o2)
                execs = re.findall(r"Exec Addr:\s+\$([0-9A-Fa-f]+)", o2)
                if len(names) == len(lens) == len(loads) == len(execs):
                    lst = {"ok": c2 == 0, "files": [{"name": ct.codes(n.strip()), "len": int(l), "load": int(a, 16), "exec": int(e, 16)} for n, l, a, e in zip(names, lens, loads, execs)]}
            t["listed_" + s] = lst
        t["stdout"] = out[-200:]
        return t
    finally:
        shutil.rmtree(W, ignore_errors=True)


def run(ctx):
    thorough = ctx.tier == "thorough"
    rnd = random.Random(ctx.seed * 334214459 + 11)
    c10.gates(ctx, thorough)
    cfgs, r = tlc.export("Gen_C11")
    total = len(cfgs)
    rnd.shuffle(cfgs)
    cfgs = cfgs[:6000 if thorough else 420]
    for k, c in enumerate(cfgs):
        c["marker"] = k % 3
        if c["org"] + c["size"] > 65535:
            c["org"] = 16                     # (a program of 23 granules does not fit behind $F000)
    ctx.cov["suites"]["export"] = {"tlc_enumerated_configurations": total, "run": len(cfgs)}
    t0 = time.time()
    os.environ["VERIF_SCRATCH"] = tlc.OUT
    with mp.Pool(16) as pool:
        recs = pool.map(one, list(enumerate(cfgs)), chunksize=8)
    bad_asm = [x for x in recs if x["asm_outcome"] != "ok"]
    if bad_asm:
        raise tlc.MachineryError("C11 generator produced a program that does not assemble: %r" % bad_asm[0]["stdout"])
    verd, st = tlc.bulk("Tr_C11", recs, nproc=6, min_chunk=30, heap="6g")
    nv = 0
    for cfg, x in zip(cfgs, recs):
        v = verd[x["id"]]
        cls = {"src": cfg["src"], "namelen": "1" if len(cfg["name"]) == 1 else "<=8" if len(cfg["name"]) <= 8 else ">8", "lower": cfg["name"] != cfg["name"].upper(),
               "sw": "+".join(cfg["sw"]), "org": cfg["org"], "sizemod": "0" if cfg["size"] % 2304 == 0 else ("trailer" if (cfg["size"] + 10) % 2304 in range(1, 6) else "other"), "endop": cfg["endop"]}
        ctx.add_class("c11|" + "|".join(str(cls[k]) for k in ("src", "namelen", "lower", "sw", "org", "sizemod")))
        for c in v["failed"]:
            item = {"clause": c, "class": cls, "symptom": {"exit": x["exit"]}}
            if ctx.report(item, {"kind": "c11", "cfg": cfg, "stdout": x["stdout"], "exit": x["exit"]}) == "violation":
                nv += 1
    ctx.add_suite("assembler-cli-outputs", len(recs), len(recs), time.time() - t0, {"violating_items": nv})
    ctx.sample({"cfg": cfgs[0], "judged": verd[recs[0]["id"]]["failed"]})
    ctx.cov["rule"] = ("TLC-enumerated configurations {NAM / --name / both / none} x names of 1, 8, 9, 12 characters in either case x each output switch alone and combined x "
                       "origin {none, $10, $0E00, $F000} x image size {1, 3, 255, 256, 2294..2305, 4000} x END operand; assembler.py run in-process in a temp dir; the .bin is "
                       "compared with the image the API returns, the .cas / .dsk are parsed by the specification's readers (one ML file, data = image, load = origin, entry, "
                       "name rule, nothing created without a name) and file_util --list must agree with them. distinct_nontrivial = configuration classes")


def replay(ctx, rp):
    print(rp["replay"])
    return 0
