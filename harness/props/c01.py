"""C01 - every instruction statement is encoded as the MC6809 instruction it names."""
import random, time
from harness import tlc, asmgen, asmcheck
from harness.asmcheck import Case, framed


def gates(ctx, thorough):
    if tlc.skip_gates():
        return
    recs, wall = tlc.export_parts("MC_M6809", 8)
    pairs = 0
    for r in recs:
        if r["fwd"] or r["bwd"] or r["badrt"] or not r["dectotal"]:
            raise tlc.MachineryError("spec sanity gate MC_M6809 failed: %r" % r)
        pairs += r["pairs"]
    ctx.cov["models"]["MC_M6809"] = {"kind": "theorem evaluated by TLC", "instruction_context_pairs_round_tripped": pairs,
                                      "opcode_table_cells": recs[0]["cells"], "opcode_map_cells": recs[0]["mapcells"], "wall_s": round(wall, 2)}
    r = tlc.check_model("MC_Asm", "MC_Asm3" if thorough else "MC_Asm", workers=12, heap="12g", timeout=3000)
    ctx.add_model("MC_Asm3" if thorough else "MC_Asm", r, {"invariants": ["CertOK", "MustOK", "LayoutInv", "ReachInv", "Bounded"] + ([] if thorough else ["Terminates (liveness)"])})


def run(ctx):
    thorough = ctx.tier == "thorough"
    rnd = random.Random(ctx.seed * 7919 + 1)
    gates(ctx, thorough)
    stmts, wall = asmgen.table(ctx.tier, "valid")
    ctx.cov["suites"]["export"] = {"tlc_exported_statements": len(stmts), "wall_s": round(wall, 2)}
    # S1: spec -> code, every enumerated valid statement in a labelled frame
    asmcheck.run_suite(ctx, "table", [framed(s, "table") for s in stmts])
    # S2: the same operands reached through an EQU or a label
    valued = [s for s in stmts if asmgen.uses_value(s) and s["expr"]["l"]["n"] >= 0]
    step = 1 if thorough else 7
    sub = valued[rnd.randrange(step)::step]
    cases = []
    for k, s in enumerate(sub):
        cases.append(asmgen.via_equ(s, before=(k % 2 == 0)))
        if s["form"] != "pcr":
            cases.append(asmgen.via_label(s, before=(k % 4 < 2)))
    asmcheck.run_suite(ctx, "symbolic", cases)
    # S3: code -> spec, seeded random members of the class lattice (random values, spellings, spacing, case, comments)
    n = 200000 if thorough else 12000
    cases = []
    for _ in range(n):
        t, rk = asmgen.random_variant(rnd, rnd.choice(stmts))
        cases.append(framed(t, "random", **rk))
    asmcheck.run_suite(ctx, "random", cases)
    if thorough:
        # S4: full value sweeps on one representative per mnemonic class and form
        reps = {}
        for s in stmts:
            if asmgen.uses_value(s):
                key = (s["mn"] in ("LDA", "LDX", "LDY", "STA", "STY", "JMP", "INC", "LEAX", "ANDCC"), s["mn"], s["form"], s["ind"], s["force"], s["reg"])
                if key[0] and s["reg"] in ("X", "S"):
                    reps.setdefault(key, s)
        cases, nsw = [], 0                      # (built and judged in slices of 250,000: the whole sweep does not fit in memory at once)
        for s in reps.values():
            for v in list(range(0, 65536, 1 if s["form"] in ("imm", "idx") else 3)) + list(range(-32768, 0, 5)) + list(range(-300, 0)):
                t = asmgen.with_expr(s, asmgen.ex(asmgen.num(v, "dec" if v < 0 else rnd.choice(["dec", "hex", "hex4"]))))
                cases.append(framed(t, "sweep"))
                if len(cases) >= 250000:
                    asmcheck.run_suite(ctx, "sweep-%d" % nsw, cases)
                    cases, nsw = [], nsw + 1
        if cases:
            asmcheck.run_suite(ctx, "sweep-%d" % nsw, cases)
    ctx.cov["rule"] = ("cases = TLC-enumerated valid statements (139 mnemonics x README operand forms x boundary values x spellings), their "
                       "EQU/label variants, and seeded random redraws; each assembled in a labelled 3-statement frame and judged by TLC "
                       "(bytes in Asm!Acceptable, decodes, reserved, placed...). distinct_nontrivial = distinct spec classes "
                       "(mnclass, form, sub, ind, force, valclass, valsrc, spelling) of the statement under test")
    ctx.assumptions += ["MC6809 datasheet transcribed twice in spec/M6809.tla (by mnemonic, by opcode) and cross-checked by TLC",
                        "harness/asmio.py renders abstract statements to README syntax and reads per-statement bytes; cross-checked against listing and image"]


def replay(ctx, rp):
    return asmcheck.replay_case(ctx, rp["replay"])
