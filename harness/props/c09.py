"""C09 - adding or appending a file never disturbs files already stored (host level: save, re-open, add more)."""
import random, time
from harness import tlc, hostrun, containers as ct
from harness.props import c10
GB = ct.GB


def api_histories(rnd, thorough):
    """append sequences through VirtualFile on a real temp file: boundary lengths, past the size of a disk image, to a full disk"""
    hists = []
    nid = [300]

    def f(n, kind="rand", ftype=2, dtype=0):
        nid[0] += 1
        return nid[0], ct.mkfile("A%d" % nid[0], ct.content(rnd, kind, n), ftype, dtype, 0x0E00, 0x0E10)

    def hist(sw, files):
        cmds = []
        for i, fl in files:
            cmds.append({"tool": "api", "sw": sw, "app": True, "named": True, "new": [i], "srcn": 0, "file": fl})
        return {"init": {"kind": "absent", "big": False, "files": []}, "cmds": cmds}
    tape_lens = [1, 2, 254, 255, 256, 509, 510, 511, 765, 1020]
    for _ in range(12 if thorough else 4):
        hists.append(hist("cas", [f(rnd.choice(tape_lens), rnd.choice(["ramp", "marker", "55", "rand"]), rnd.choice([0, 1, 2]), rnd.choice([0, 255])) for _ in range(rnd.randint(2, 5))]))
    # a tape growing past 161,280 bytes with $00 / $FF / printable content at the allocation-table and directory offsets
    for kind in ("00", "ff", "ramp"):
        hists.append(hist("cas", [f(60000, kind) for _ in range(3)] + [f(10, "rand"), f(300, "marker")]))
    disk_lens = [1, 10, 245, 246, 2289, 2293, 2294, 2295, 2299, 2304, 4598, 4599, 4603, 7000, 20000]
    for _ in range(12 if thorough else 4):
        hists.append(hist("dsk", [f(rnd.choice(disk_lens), "rand", *rnd.choice([(2, 0), (0, 0), (1, 255)])) for _ in range(rnd.randint(2, 5))]))
    # up to the capacity of the medium: granules, then one more
    hists.append(hist("dsk", [f(GB * 11 - 20) for _ in range(6)] + [f(GB * 2 - 50), f(100), f(100)]))
    if thorough:
        hists.append(hist("dsk", [f(30) for _ in range(74)]))
    return hists


def host_suites(ctx, rnd, thorough, n_sample=None):
    t0 = time.time()
    hists, total = c10.model_histories(ctx, rnd, n_sample if n_sample is not None else (2500 if thorough else 150))
    ctx.cov["suites"]["export"] = {"tlc_exported_histories": total, "replayed": len(hists)}
    c10.judge(ctx, "model-histories", c10.replay_histories(hists, extra_every=3), t0, own=c10.OWN[ctx.prop])
    t0 = time.time()
    c10.judge(ctx, "api-append-histories", c10.replay_histories(api_histories(rnd, thorough)), t0, own=c10.OWN[ctx.prop])
    t0 = time.time()
    c10.judge(ctx, "append-to-disk-with-killed-entries", c10.replay_histories(hole_histories(rnd, thorough)), t0, own=c10.OWN[ctx.prop])
    t0 = time.time()
    c10.judge(ctx, "overflow-conversions", c10.replay_histories(overflow_histories(rnd, thorough)), t0, own=c10.OWN[ctx.prop])


def hole_histories(rnd, thorough):
    """appends to an existing disk whose directory has killed entries before / between its files and whose chains lie anywhere (an image written by the
    specification's writer, as Disk BASIC leaves it after KILL): every old file still lists, in order, and the new one after them"""
    ins, hs = [], []
    for k in range(24 if thorough else 8):
        ids = [101, 102, 103][:rnd.choice([2, 3])]
        files = [hostrun.stored_file(i) for i in ids]
        free = list(range(68))
        rnd.shuffle(free)
        chains = [[free.pop()] for _ in files]
        slots = sorted(rnd.sample(range(1, rnd.choice([len(ids) + 2, 8, 30]) + 1), len(ids)))
        if slots == list(range(1, len(ids) + 1)):
            slots[-1] += 2
        ins.append({"id": k, "files": [ct.jfile(f) for f in files], "chains": chains, "slots": slots})
        tool = rnd.choice(["asm", "util"])
        cmd = {"tool": tool, "sw": "dsk", "app": True, "named": True, "new": [9] if tool == "asm" else [201], "srcn": 0 if tool == "asm" else 1}
        lst = {"tool": "util", "sw": "list", "app": False, "named": True, "new": [], "srcn": 0}
        hs.append({"init": {"kind": "dsk", "big": False, "files": ids}, "cmds": [lst, cmd, lst, dict(cmd), lst]})
    imgs, _ = tlc.bulk("Gen_Disk", ins, cfg="Gen_Disk", nproc=4, min_chunk=4, heap="4g")
    for k, h in enumerate(hs):
        h["initbuf"] = ct.expand_sparse(imgs[k])
    return hs


def overflow_histories(rnd, thorough):
    """file_util conversions of SEVERAL large files in one command onto a disk: all of them fit, or the command fails and the host file is left as it was -
    also when the first files would fit and a later one does not (new disk, and append to a disk that already holds files)."""
    hs = []
    for big, srcn in ((60000, 2), (60000, 3), (40000, 3), (40000, 4), (20000, 7), (20000, 8), (2000, 60), (2304 * 2 - 10, 34), (2304 * 2 - 10, 35)):
        for init in ({"kind": "absent", "big": False, "files": []}, {"kind": "dsk", "big": False, "files": [101, 102]}, {"kind": "dsk", "big": False, "files": []}):
            for app in ((False, True) if init["kind"] == "dsk" else (False,)):
                for srckind in ("cas", "dsk"):
                    if srckind == "dsk" and srcn * ((big + 10) // 2304 + 1) > 68:
                        continue                         # (the source disk itself could not hold them)
                    ids = list(range(201, 201 + srcn))
                    hs.append({"init": init, "srcbig": big, "srckind": srckind,
                               "cmds": [{"tool": "util", "sw": "dsk", "app": app, "named": True, "new": ids, "srcn": srcn},
                                        {"tool": "util", "sw": "list", "app": False, "named": True, "new": [], "srcn": 0}]})
    return hs if thorough else hs[rnd.randrange(2)::2]


def run(ctx):
    thorough = ctx.tier == "thorough"
    rnd = random.Random(ctx.seed * 776531401 + 9)
    c10.gates(ctx, thorough)
    rs = tlc.check_models([("MC_Disk", "MC_Disk", 6, "8g"), ("MC_Tape", "MC_Tape", 8, "10g")])
    ctx.add_model("MC_Disk(OldFilesStable)", rs[0])
    ctx.add_model("MC_Tape(stream is extended, never rewritten)", rs[1])
    host_suites(ctx, rnd, thorough)
    ctx.cov["rule"] = ("(1) the TLC-exported command histories of MC_Host replayed through both CLIs (append cells of the matrix, sniffing of what was written); (2) append "
                       "sequences through VirtualFile on a real temp file: open / add / save with append, re-opened from its bytes each time - tapes with boundary lengths and "
                       "marker contents, tapes growing past 161,280 bytes with $00/$FF/ramp content, disks with boundary lengths of all file kinds, to a full disk and one more. "
                       "After every step the host bytes are read by the specification's readers: every file stored so far, in order, then the new one (Host!AppendPreserves / "
                       "AppendHappens), and the VirtualFile hook events (exists, sniffed kind, wrote) are validated. distinct_nontrivial = host step classes")
    ctx.assumptions += ["empty files on tape are left to C06 (known finding KF-tape-empty-file)"]


def replay(ctx, rp):
    print(rp["replay"])
    return 0
