"""C19 - INCLUDE is textual inclusion."""
import random, time, os, tempfile, shutil, multiprocessing as mp
from harness import tlc, asmio, proggen, hostrun
from harness.asmcheck import Case
from harness.props import c18


def split_tree(rnd, lines, depth, names):
    """returns (main lines, {filename: lines}) for a random include tree over the given lines"""
    files = {}

    def build(ls, d):
        if d == 0 or len(ls) < 2 or rnd.random() < 0.2:
            return list(ls)
        out = []
        i = 0
        nsub = rnd.choice([1, 1, 2, 3])
        cuts = sorted(rnd.sample(range(len(ls) + 1), min(2 * nsub, len(ls) + 1)))
        if len(cuts) % 2:
            cuts = cuts[:-1]
        for a, b in zip(cuts[::2], cuts[1::2]):
            out += ls[i:a]
            if names and b > a:
                fn = names.pop()
                files[fn] = build(ls[a:b], d - 1)
                out.append(" INCLUDE %s\n" % fn)
            else:
                out += ls[a:b]
            i = b
        out += ls[i:]
        return out
    main = build(lines, depth)
    return main, files


def one(args):
    k, seed, mode = args
    rnd = random.Random(seed)
    prog, kind = proggen.gen_program(rnd, 4, 14, faults=rnd.random() < 0.15)
    lines = Case(prog).lines
    W = tempfile.mkdtemp(prefix="c19", dir=os.environ.get("VERIF_SCRATCH"))
    cwd = os.getcwd()
    try:
        # names that contain each other, and a sub-directory (include paths are relative to the working directory)
        # ... and names spelled with ./ and ../ , a dot-file, an absolute path: the file NAMED is the file included (decoys with the stripped names
        # hold different text).  The working directory is W/work so that ../ stays inside the scratch directory.
        base = os.path.join(W, "work")
        os.makedirs(os.path.join(base, "sub"), exist_ok=True)
        names = ["data.asm", "a.asm", "ta.asm", "sub/defs.asm", "defs.asm", "x1.asm", "1.asm", "inc.asm", "c.asm", "sub/a.asm"]
        if k % 2:
            names += ["./local.asm", "../up.asm", ".hidden.asm", "./sub/b.asm", "../work/w.asm", os.path.join(W, "abs.asm"), "sub/../t.asm"]
            for decoy in ("up.asm", "hidden.asm", "work/w.asm", "abs.asm"):
                os.makedirs(os.path.dirname(os.path.join(base, decoy)), exist_ok=True)
                open(os.path.join(base, decoy), "w").write(" FCB 99\nDECOY FCB 98\n")
        rnd.shuffle(names)
        t = {"id": k, "D": 0, "absref": [], "moved": [], "labels": [], "ren": []}
        if mode == "tree":
            main, files = split_tree(rnd, lines, 3, names)
            if not files:
                main, files = lines[:1] + [" INCLUDE only.asm\n"], {"only.asm": lines[1:]}
            t["kind"] = "include"
        elif mode == "every-boundary":
            i = rnd.randrange(0, len(lines))
            j = rnd.randrange(i, len(lines) + 1)
            main, files = lines[:i] + [" INCLUDE part.asm\n"] + lines[j:], {"part.asm": lines[i:j]}
            t["kind"] = "include"
        elif mode == "twice":
            # the same (label-free) file included two or three times, directly and through another file: every occurrence is replaced by its lines
            body = [l for l in lines if l[:1] in " \t"][:rnd.randint(1, 4)] or [" NOP \n"]
            body = [l for l in body if " ORG" not in l.upper() and " END" not in l.upper() and " NAM" not in l.upper()] or [" NOP \n"]
            rest = [l for l in lines]
            cut = sorted(rnd.sample(range(len(rest) + 1), 2))
            inc = " INCLUDE common.asm\n"
            via = " INCLUDE via.asm\n"
            use_via = rnd.random() < 0.5
            main = rest[:cut[0]] + [inc] + rest[cut[0]:cut[1]] + [via if use_via else inc] + rest[cut[1]:] + ([inc] if rnd.random() < 0.3 else [])
            files = {"common.asm": body}
            if use_via:
                files["via.asm"] = [" NOP \n", inc, " NOP \n"]
            spl = []
            for l in main:
                if l == inc:
                    spl += body
                elif l == via:
                    spl += [" NOP \n"] + body + [" NOP \n"]
                else:
                    spl.append(l)
            lines = spl
            t["kind"] = "include"
        elif mode == "missing":
            main, files = lines[:2] + [" INCLUDE nosuch.asm\n"] + lines[2:], {}
            t["kind"] = "include-reject"
        elif mode == "notext":
            # the file named is there but is not a text file (bytes that are not UTF-8), or is a directory: a diagnostic, not a traceback
            main, files = lines[:2] + [" INCLUDE %s\n" % ("blob.bin" if k % 2 else "sub")] + lines[2:], {}
            open(os.path.join(base, "blob.bin"), "wb").write(b" FCB 1\n" + bytes(rnd.choice([[0xFF, 0xFE], [0xC3, 0x28], [0x80], [0xE2, 0x82], [0xF8, 0x88, 0x80]])) + b" NOP \n")
            t["kind"] = "include-reject"
        else:    # cycles of length 1..3
            n = rnd.choice([1, 2, 3])
            cyc = rnd.sample(["cyc.asm", "c.asm", "yc.asm", "sub/c.asm"], n)
            files = {cyc[j]: [" NOP \n", " INCLUDE %s\n" % cyc[(j + 1) % n]] for j in range(n)}
            main = lines[:1] + [" INCLUDE %s\n" % cyc[0]] + lines[1:]
            t["kind"] = "include-reject"
        for fn, ls in files.items():
            open(os.path.normpath(os.path.join(base, fn)), "w").write("".join(ls))
        os.chdir(base)
        a = asmio.assemble(list(main))
        b = asmio.assemble(list(lines))
        t["a"], t["b"] = c18.out_of(a), c18.out_of(b)
        t["linesA"], t["linesB"], t["files"], t["mode"], t["exc"] = main, lines, files, mode, a["exc"]
        if k % 25 == 0:           # the same through the command line tool, as the property's observation point says
            assembler = hostrun.import_cli("assembler")
            open(os.path.join(base, "main.asm"), "w").write("".join(main))
            code, out = hostrun.run_main(assembler, ["main.asm", "--to_bin", "m.bin"])
            t["cli"] = {"exit": code, "tb": "TRACEBACK" in out, "bin": list(open("m.bin", "rb").read()) if os.path.exists("m.bin") else None}
        return t
    finally:
        os.chdir(cwd)
        shutil.rmtree(W, ignore_errors=True)


def model_one(args):
    """one file set of the Include machine (Names -> Seq(Item)) as real files; the root through the command line tool"""
    k, fs = args
    W = tempfile.mkdtemp(prefix="c19m", dir=os.environ.get("VERIF_SCRATCH"))
    cwd = os.getcwd()
    try:
        for n, items in fs.items():
            open(os.path.join(W, n + ".asm"), "w").write("".join(" FCB %d\n" % x["v"] if x["k"] == "s" else " INCLUDE %s.asm\n" % x["inc"] for x in items))
        os.chdir(W)
        assembler = hostrun.import_cli("assembler")
        code, out = hostrun.run_main(assembler, ["a.asm", "--to_bin", "m.bin"])
        has = os.path.exists("m.bin")
        return {"id": k, "root": "a", "files": fs, "exit": code, "tb": "TRACEBACK" in out or "Traceback" in out, "hasbin": has,
                "bin": list(open("m.bin", "rb").read()) if has else [], "msg": len(out.strip()) > 0, "stdout": out[-200:]}
    finally:
        os.chdir(cwd)
        shutil.rmtree(W, ignore_errors=True)


def model_suite(ctx, rnd, thorough):
    """Spec -> code -> spec: the initial states of MC_Include (every assignment of contents to the three files: empty files, files that only include, an
    include right after an include of an empty file, the same file twice, cycles through 1-3 files, the missing file at any place) written as real
    files; Tr_Include evaluates Include!Splice on the same file set and compares it with what the assembler saved."""
    import itertools
    t0 = time.time()
    conts, r = tlc.export("Gen_Include")
    conts = [c["items"] for c in conts]
    names = ["a", "b", "c"]
    space = len(conts) ** len(names)
    if thorough:
        picks = itertools.product(range(len(conts)), repeat=3)
    else:
        picks = set()
        while len(picks) < 6000:
            picks.add(tuple(rnd.randrange(len(conts)) for _ in names))
        picks = sorted(picks)
    jobs = [(k, {n: conts[i] for n, i in zip(names, pk)}) for k, pk in enumerate(picks)]
    os.environ["VERIF_SCRATCH"] = tlc.OUT
    with mp.Pool(16) as pool:
        recs = pool.map(model_one, jobs, chunksize=50)
    verd, st = tlc.bulk("Tr_Include", [{k: v for k, v in x.items() if k != "stdout"} for x in recs], nproc=6, heap="3g")
    nv = 0
    for x in recs:
        v = verd[x["id"]]
        shape = "".join("e" if not x["files"][n] else "".join(i["k"] for i in x["files"][n]) + "." for n in names)
        ctx.add_class("incmodel|%s|%s|%d" % (shape, v["bad"], v["n"]))
        for c in v["failed"]:
            item = {"clause": "model-" + c, "class": {"mode": "model", "spec_rejects": v["bad"], "spliced_len": v["n"]}, "symptom": {"exit": x["exit"]}}
            if ctx.report(item, {"kind": "include-model", "files": {n + ".asm": [" FCB %d" % i["v"] if i["k"] == "s" else " INCLUDE %s.asm" % i["inc"] for i in x["files"][n]] for n in names},
                                 "root": "a.asm", "exit": x["exit"], "bin": x["bin"], "stdout": x["stdout"]}) == "violation":
                nv += 1
    ctx.add_suite("model-file-sets", len(recs), len(recs), time.time() - t0, {"violating_items": nv, "file_sets_in_model": space})


def run(ctx):
    thorough = ctx.tier == "thorough"
    rnd = random.Random(ctx.seed * 1190494759 + 19)
    r = tlc.check_model("MC_Include", workers=12, heap="12g")
    ctx.add_model("MC_Include(3 files, <=2 items)", r, {"invariants": ["TextualInclusion", "RejectsExactly", "StackBounded", "Terminates (liveness)"]})
    t0 = time.time()
    n = 20000 if thorough else 700
    modes = ["tree"] * 5 + ["every-boundary"] * 3 + ["twice", "missing", "cycle", "notext"]
    os.environ["VERIF_SCRATCH"] = tlc.OUT
    with mp.Pool(16) as pool:
        ts = pool.map(one, [(k, rnd.randrange(1 << 40), modes[k % len(modes)]) for k in range(n)], chunksize=10)
    recs = [{k: v for k, v in t.items() if k not in ("linesA", "linesB", "files", "mode", "exc", "cli")} for t in ts]
    verd, st = tlc.bulk("Tr_Pair", recs, nproc=6, heap="4g")
    nv = 0
    for t in ts:
        v = verd[t["id"]]
        ctx.add_class("inc|%s|%s|%d|%s" % (t["mode"], t["a"]["outcome"], min(len(t["files"]), 4), t["b"]["outcome"]))
        bad = []
        if not v["ok"]:
            bad.append(t["kind"])
        cli = t.get("cli")
        if cli is not None:
            if cli["tb"]:
                bad.append("cli-traceback")
            elif t["a"]["outcome"] == "ok" and (cli["exit"] != 0 or cli["bin"] != t["a"]["image"]):
                bad.append("cli-differs")
            elif t["a"]["outcome"] in ("parse", "translation") and cli["exit"] == 0:
                bad.append("cli-exit-zero")
        for c in bad:
            item = {"clause": c, "class": {"mode": t["mode"], "outcomes": [t["a"]["outcome"], t["b"]["outcome"]], "nfiles": len(t["files"])}, "symptom": {"exc": t["exc"]}}
            if ctx.report(item, {"kind": "include", "main": t["linesA"], "files": t["files"], "spliced": t["linesB"], "bad_statement": v["badk"]}) == "violation":
                nv += 1
    ctx.add_suite("include-trees", len(ts), len(ts), time.time() - t0, {"violating_items": nv})
    ctx.sample({"main": ts[0]["linesA"], "files": ts[0]["files"]})
    model_suite(ctx, rnd, thorough)
    ctx.cov["rule"] = ("random programs (forward / backward references, branches, PCR operands) split into an including file and 1-3 included files, nested to depth 3, and at "
                       "every single boundary pair; missing files; inclusion cycles of length 1-3; files materialised in a temp dir, assembled with the working directory there "
                       "(every 25th also through assembler.py), versus the spliced single file; judged by TLC with Session!IncludeEquiv (image, listing addresses, bytes, symbol "
                       "table), missing / cyclic => diagnostic; plus the file sets of the model itself (MC_Include's initial states: 3 files x <= 2 items over 2 statements, includes of the 3 files and of a missing file - 79,507 "
                       "sets, all in the thorough tier, 6,000 sampled in the quick tier) written as real files, assembled through assembler.py and judged by Tr_Include against Include!Splice. distinct_nontrivial = (mode, outcome, files) classes")


def replay(ctx, rp):
    print(rp["replay"])
    return 0
