"""C05 - data directives emit exactly the bytes they specify."""
import random
from harness import tlc, asmgen, asmcheck, asmio
from harness.asmio import stmt, ex, sym, num, NONE
from harness.asmcheck import Case, framed
from harness.props import c01

DELIMS = {"dq": '"', "slash": "/", "sq": "'", "bar": "|"}
DELIMS.update({"d%d" % c: chr(c) for c in (35, 91, 60, 36, 37, 33, 58, 46, 42, 40, 88, 64, 93, 62, 44, 43, 45, 61, 63, 94, 95, 96, 123, 126, 48, 97)})


def fcc(chars, dname):
    return stmt("FCC", "fcc", chars=chars, expr=ex({"k": "none", "n": ord(DELIMS[dname]), "s": "", "sp": dname}))


def random_cases(rnd, n):
    out = []
    for _ in range(n):
        r = rnd.random()
        if r < 0.45:
            dname = rnd.choice(list(DELIMS))
            ln = rnd.choice([0, 1, 2, 3, 5, 8, 13, 40, 255, rnd.randint(0, 255)])
            alpha = [c for c in range(32, 127) if chr(c) != DELIMS[dname]]
            if rnd.random() < 0.5:
                alpha = [c for c in alpha if c not in (32, 59)]          # half of the strings avoid blanks and ';'
            if rnd.random() < 0.15:
                alpha = alpha + [9, 9, 9, 1, 7, 15, 127, 160, 255]          # a tab (and other one-byte characters) is a character like any other
            chars = [rnd.choice(alpha) for _ in range(ln)]
            s = fcc(chars, dname)
            out.append(framed(s, "fcc-random", comment=rnd.choice([None, None, "text", "a ; b", 'say "hi" /now/', "it's |ok|"])))
        elif r < 0.9:
            wide = rnd.random() < 0.5
            ln = rnd.choice([1, 1, 2, 3, 4, 8, 64, rnd.randint(1, 64)])
            vals = []
            for _ in range(ln):
                c = rnd.random()
                if c < 0.7:
                    v = rnd.randint(0, 65535 if wide else 255)
                elif c < 0.9:
                    v = -rnd.randint(1, 32768 if wide else 128)
                else:
                    v = rnd.choice([256, 300, 65535, -129, -200]) if not wide else rnd.choice([0, 65535, -32768])
                vals.append(ex(num(v, rnd.choice(asmgen.spellings_for(v, allow_char=False)))))
            out.append(framed(stmt("FDB" if wide else "FCB", "fdb" if wide else "fcb", vals=vals), "list-random"))
        else:
            v = rnd.choice([0, 1, 2, 3, 100, 255, 256, 1000, rnd.randint(0, 3000)])
            out.append(framed(stmt("RMB", "rmb", expr=ex(num(v, rnd.choice(asmgen.spellings_for(v, allow_char=False))))), "rmb-random"))
    return out


def run(ctx):
    thorough = ctx.tier == "thorough"
    rnd = random.Random(ctx.seed * 49979687 + 5)
    c01.gates(ctx, thorough)
    recs, r = tlc.export("Gen_C05", env={"TIER": ctx.tier})
    ctx.cov["suites"]["export"] = {"tlc_exported_statements": len(recs), "wall_s": round(r.wall, 2)}
    asmcheck.run_suite(ctx, "directive-table", [framed(s, "table") for s in recs])
    asmcheck.run_suite(ctx, "directive-table-with-comment", [framed(s, "table-comment", comment="note") for s in recs if s["mn"] in ("FCC", "FCB", "RMB")])
    # a comment that itself contains every delimiter character must not leak into the string
    asmcheck.run_suite(ctx, "fcc-with-delimiters-in-comment", [framed(s, "table-comment-delims", comment='the "greeting" of a/b, it\'s |x|') for s in recs if s["mn"] == "FCC"])
    # text glued to the closing delimiter (no blank in between), itself containing the delimiter again: the string still ends at the FIRST closing delimiter
    glued = []
    for st in [x for x in recs if x["mn"] == "FCC"]:
        d = asmio.roperand(st)[:1]
        for tail in (d, "X" + d, "," + d + "TWO" + d, "B" + d + d, "+1", d + d):
            if " " in d or not st["chars"] or any(chr(c) in " ;" for c in st["chars"]):
                continue
            prog = asmcheck.asmrun.frame(st)
            lines = [asmio.render(prog[0]), asmio.render(dict(st, optext=asmio.roperand(st) + tail)), asmio.render(prog[2])]
            glued.append(Case(prog, lines, focus=2, tag="fcc-glued-tail"))
    asmcheck.run_suite(ctx, "fcc-glued-tail", glued if thorough else glued[rnd.randrange(3)::3])
    # the SAME list text under FCB and under FDB in one program (both orders, also twice each): one byte per value here, two bytes per value there
    same = []
    for _ in range(4000 if thorough else 400):
        vals = [ex(num(rnd.choice([0, 1, 17, 34, 51, 127, 128, 255, rnd.randint(0, 255)]), rnd.choice(["dec", "hex2", "hex", "bin8", "dec0"]))) for _ in range(rnd.choice([2, 3, 3, 4, 8]))]
        a, b = stmt("FCB", "fcb", label="LA", vals=vals), stmt("FDB", "fdb", label="LB", vals=[dict(v) for v in vals])
        order = rnd.choice([[a, b], [b, a], [a, b, dict(a, label="LC")], [b, a, dict(b, label="LC")]])
        prog = [dict(asmcheck.asmrun.NOP, label="L1")] + order + [dict(asmcheck.asmrun.NOP, label="L2")]
        same.append(Case(prog, focus=len(prog) - 1, tag="fcb-fdb-same-text"))
    asmcheck.run_suite(ctx, "fcb-fdb-same-list-text", same)
    asmcheck.run_suite(ctx, "directive-random", random_cases(rnd, 200000 if thorough else 8000))
    ctx.cov["rule"] = ("TLC-enumerated FCB/FDB lists (length 1,2,3,64 x literal spellings, negatives, boundary and out-of-range values), FCC strings from the string "
                       "class lattice (empty, blanks, blank runs, leading/trailing blank, ';', characters outside the operand alphabet, the other quotes, length 255) x "
                       "4 delimiters, RMB counts, non-emitting directives; plus seeded random strings/lists/counts. Judged by TLC (Asm!AcceptableData). "
                       "distinct_nontrivial = spec classes (directive, list length, value class, spelling, string class, delimiter)")


def replay(ctx, rp):
    return asmcheck.replay_case(ctx, rp["replay"])
