"""C17 - assembler output depends only on the source text."""
import random, time, os, sys, json, subprocess, multiprocessing as mp
from harness import tlc, asmio, proggen, sessionrun
from harness.asmcheck import Case
from harness.props.c13 import README, mutate_line

VERIF = tlc.VERIF


def make_pool(rnd):
    """8 sources: accepted and rejected, covering the defaulted-NoneValue paths (no ORG, no operands, data only, PCR, expressions)"""
    pool = [README]
    pool.append([" NOP \n", " RTS \n", " SWI \n"])                                   # no ORG, no operands, no labels
    prog, _ = proggen.gen_program(rnd, 6, 14, faults=False)
    pool.append(Case(prog).lines)                                                   # random valid program (PCR, branches, data)
    bad = list(README)
    bad[rnd.randrange(1, len(bad))] = " LDA #300 ; does not fit\n"
    pool.append(bad)                                                                # rejected at translation
    pool.append(["L FCB 1,2,3\n", "L FDB 4\n"])                                      # duplicate label
    m = list(Case(proggen.gen_program(rnd, 5, 9, faults=False)[0]).lines)
    k = rnd.randrange(len(m))
    m[k] = mutate_line(rnd, m[k])
    pool.append(m)                                                                  # a mutated program (accepted or rejected)
    # two programs that include the same file with its labels at different statement positions, and a very long label
    pool.append([" ORG $0E00\n", " INCLUDE lib.asm\n", "START LDA #1\n", " JMP DONE\n", " BRA LIBTOP\n"])
    pool.append([" ORG $0E00\n", "VERYLONGLABELNAME1 NOP \n", " NOP \n", " LDX #VERYLONGLABELNAME1\n", " INCLUDE lib.asm\n", " JMP DONE\n", " LDA LIBTOP,PCR\n"])
    return pool


LIBFILES = {"lib.asm": "LIBTOP LDB #2\n BEQ DONE\n STB $0400\nDONE RTS \n"}


def warm(args):
    pool, hist = args
    os.environ["VERIF_SCRATCH"] = tlc.OUT
    return sessionrun.run_history(pool, hist, "warm", LIBFILES)


def fresh(args):
    pool, hist, seed = args
    env = dict(os.environ)
    env["PYTHONHASHSEED"] = str(seed)
    env["COCOASM_VERIF"] = "1"
    env["VERIF_SCRATCH"] = tlc.OUT
    p = subprocess.run([sys.executable, "-c", "import sys; sys.path.insert(0, %r); from harness import sessionrun; sessionrun.main()" % VERIF],
                       input=json.dumps({"pool": pool, "hist": hist, "cfg": "fresh-seed-%s" % seed, "files": LIBFILES}).encode(), stdout=subprocess.PIPE, stderr=subprocess.PIPE, env=env, timeout=120)
    if p.returncode != 0:
        raise tlc.MachineryError("session subprocess failed: " + p.stderr.decode()[-400:])
    return json.loads(p.stdout.decode())


def run(ctx):
    thorough = ctx.tier == "thorough"
    rnd = random.Random(ctx.seed * 715225739 + 17)
    hists, r = tlc.export("MC_Session", workers=4)
    ctx.add_model("MC_Session(pool 8, length 4)", r, {"invariants": ["Deterministic", "MemoSound"]})
    uniq = sorted(set(tuple(h) for h in hists))
    rnd.shuffle(uniq)
    n = len(uniq) if thorough else 220
    t0 = time.time()
    traces = []
    jobs_w, jobs_f = [], []
    pools = []
    for k, h in enumerate(uniq[:n]):
        pool = make_pool(random.Random(ctx.seed * 1000003 + k // 40))         # a new pool every 40 histories
        pools.append(pool)
        jobs_w.append((pool, list(h)))
        jobs_f.append((pool, list(h), rnd.choice([0, 1, 2, 12345, "random"])))
    with mp.Pool(16) as p:
        ws = p.map(warm, jobs_w, chunksize=4)
        fs = p.map(fresh, jobs_f if thorough else jobs_f[::3], chunksize=2)
    fi = 0
    for k in range(len(ws)):
        ev = list(ws[k])
        if thorough or k % 3 == 0:
            ev += fs[fi]
            fi += 1
        traces.append({"id": k, "events": ev})
    verd, st = tlc.bulk("Tr_Session", traces, nproc=6, min_chunk=20, heap="4g")
    nv = 0
    for t in traces:
        v = verd[t["id"]]
        outs = "".join(e["out"]["outcome"][0] for e in t["events"][:4])
        ctx.add_class("session|%s|%s" % (outs, len(t["events"])))
        if not v["ok"]:
            e = t["events"][v["at"] - 1]
            f = t["events"][v["first"] - 1] if v["first"] else e
            diff = [k2 for k2 in e["out"] if e["out"][k2] != f["out"][k2]]
            item = {"clause": v["why"], "class": {"cfg": e["cfg"], "first_cfg": f["cfg"], "outcome": e["out"]["outcome"], "differs_in": diff}, "symptom": {}}
            if ctx.report(item, {"kind": "session", "hist": [x["src"] for x in t["events"]], "at": v["at"], "first": v["first"], "pool": pools[t["id"]], "got": e["out"], "before": f["out"]}) == "violation":
                nv += 1
    ctx.add_suite("histories", len(traces), len(traces), time.time() - t0, {"violating_items": nv, "assemblies": sum(len(t["events"]) for t in traces)})
    ctx.sample({"hist": [e["src"] for e in traces[0]["events"]], "cfgs": sorted(set(e["cfg"] for e in traces[0]["events"])), "outcomes": [e["out"]["outcome"] for e in traces[0]["events"]]})
    ctx.cov["rule"] = ("every order of <= 4 assemblies over a pool of 8 sources (README example, operand-less program, random valid program, translation error, duplicate label, "
                       "mutated program, two programs that INCLUDE the same file at different positions, one with a label longer than the listing column; pools re-drawn per seed), TLC-exported; each history is run warm in one interpreter and again in a fresh process under PYTHONHASHSEED "
                       "0/1/2/12345/random; every event carries the full image, listing and symbol table; Tr_Session demands equality with the first output seen for that source, "
                       "and that the input list is unchanged. distinct_nontrivial = (outcome pattern, events) classes")


def replay(ctx, rp):
    print(rp["replay"]["hist"])
    return 0
