"""C17 - assembler output depends only on the source text."""
import random, time, os, sys, json, subprocess, multiprocessing as mp
from harness import tlc, asmio, proggen, sessionrun
from harness.asmcheck import Case
from harness.props.c13 import README, mutate_line

VERIF = tlc.VERIF


def make_pool(rnd):
    """8 sources: accepted and rejected, covering the defaulted-NoneValue paths (no ORG, no operands, data only, PCR, expressions)"""
    pool = [README]
    pool.append([" NOP \n", " RTS \n", " LDA #2+3\n", " LDX #$10*2\n", " SWI "])            # no ORG, no labels; constant expressions; the LAST LINE HAS NO
    #                                                                                 line terminator (what readlines() gives for such a file): the list must come back as given
    prog, _ = proggen.gen_program(rnd, 6, 14, faults=False)
    pool.append(Case(prog).lines)                                                   # random valid program (PCR, branches, data)
    bad = list(README)
    bad[rnd.randrange(1, len(bad))] = rnd.choice([" LDA #300 ; does not fit\n", " LDA #TAB_LEN+1\n", " LDX #$12345+1\n", " LDA #1+\n", " JMP [$10\n", " FCC /abc\n", " LDA ,Q\n",
                                                  " BRA NOWHERE\n", " FCB 1,,2\n", " LDA #5/0\n", " LDX #K+*\n", " TFR A,X\n", " INCLUDE nosuch.asm\n", " PSHS Q\n", " LDA [,X+]\n"])
    pool.append(bad)                                                                # rejected (parse or translation), in many different places
    pool.append(["L FCB 1,2,3\n", "L FDB 4\n"])                                      # duplicate label
    m = list(Case(proggen.gen_program(rnd, 5, 9, faults=False)[0]).lines)
    k = rnd.randrange(len(m))
    m[k] = mutate_line(rnd, m[k])
    pool.append(m)                                                                  # a mutated program (accepted or rejected)
    # two programs that include the same file with its labels at different statement positions, and a very long label
    pool.append([" ORG $0E00\n", " INCLUDE lib.asm\n", "START LDA #1\n", " JMP DONE\n", " BRA LIBTOP"])       # (no terminator on the last line either)
    pool.append([" ORG $0E00\n", "VERYLONGLABELNAME1 NOP \n", " NOP \n", " LDX #VERYLONGLABELNAME1\n", " INCLUDE lib.asm\n", " JMP DONE\n", " LDA LIBTOP,PCR\n"])
    return pool


LIBFILES = {"lib.asm": "LIBTOP LDB #2\n BEQ DONE\n STB $0400\nDONE RTS \n"}


def warm(args):
    pool, hist = args
    os.environ["VERIF_SCRATCH"] = tlc.OUT
    return sessionrun.run_history(pool, hist, "warm", LIBFILES)


def fresh(args):
    pool, hist, seed = args
    env = dict(os.environ)
    env["PYTHONHASHSEED"] = str(seed)
    env["COCOASM_VERIF"] = "1"
    env["VERIF_SCRATCH"] = tlc.OUT
    p = subprocess.run([sys.executable, "-c", "import sys; sys.path.insert(0, %r); from harness import sessionrun; sessionrun.main()" % VERIF],
                       input=json.dumps({"pool": pool, "hist": hist, "cfg": "fresh-seed-%s" % seed, "files": LIBFILES}).encode(), stdout=subprocess.PIPE, stderr=subprocess.PIPE, env=env, timeout=120)
    if p.returncode != 0:
        raise tlc.MachineryError("session subprocess failed: " + p.stderr.decode()[-400:])
    return json.loads(p.stdout.decode())


def poison_chunk(args):
    """one interpreter: for every 'first' program (accepted or rejected, of any kind) assemble it, then every probe"""
    firsts, probes = args
    os.environ["VERIF_SCRATCH"] = tlc.OUT
    out = []
    for x in firsts:
        ev = sessionrun.run_history([x] + probes, list(range(1, len(probes) + 2)), "warm", LIBFILES)
        for e in ev:
            e["src"] = 100 if e["src"] == 1 else e["src"] - 1
        out.append(ev)
    return out


def poison_suite(ctx, rnd, thorough):
    """State left behind by ONE earlier program - drawn from thousands of different accepted and rejected programs, so that the failure sites
    are as varied as the assembler's diagnostics - must not change what six probe programs assemble to (their reference: alone, fresh process)."""
    from harness import asmgen, asmcheck
    t0 = time.time()
    probes = [README, [" NOP \n", " LDA #2+3\n", " LDX #$10*2\n", "K EQU 7\n", " LDB #K+1\n", " LDY #K*K\n", " SWI "],          # last line without terminator
              Case(proggen.gen_program(rnd, 8, 14, faults=False)[0]).lines,
              [" ORG $0E00\n", " INCLUDE lib.asm\n", "START LDA #1\n", " JMP DONE\n", " BRA LIBTOP\n"],
              [" ORG $2000\n", "VERYLONGLABELNAME1 NOP \n", " LDX #VERYLONGLABELNAME1\n", " INCLUDE lib.asm\n", " JMP DONE\n", " LDA LIBTOP,PCR\n"],
              [" ORG $0100\n", "A1 LEAX A3,PCR\n", " RMB 120\n", "A2 LDA A1,PCR\n", "A3 LBRA A1\n", " FCC /text/\n", " FDB $1234,5\n"],
              [" FDB 17,34,51\n", " FCB 1,2\n", " PSHS X,Y\n", " TFR A,B\n", " EXG D,X\n", " PULU A,B\n", " FCC /A B/\n"],
              [" ORG $3000\n", "START NOP \n", " LDX #TABLE+2\n", " LDA TABLE+1\n", " JMP [TABLE]\n", " LDB #COUNT*2\n", " RMB 3\n", "TABLE FCB 1,2,3\n", "COUNT EQU 4\n"]]
    firsts = []
    n = 6000 if thorough else 1200
    bad, _ = asmgen.table(ctx.tier, "invalid")
    base = [README] + [Case(proggen.gen_program(rnd, 4, 10)[0]).lines for _ in range(20)]
    for k in range(n):
        c = k % 5
        if c == 4:
            # the probes' own LINES in a different layout (lines inserted, origin moved, an EQU changed, list text moved to the other directive):
            # anything remembered per source line / operand text / file name by an earlier program must not leak into the probe
            m = list(rnd.choice(probes))
            for _j in range(rnd.randint(1, 3)):
                m.insert(rnd.randrange(len(m) + 1), rnd.choice([" NOP \n", " RMB 7\n", " FCB 17,34,51\n", " FDB 1,2\n", " TFR X,Y\n", " PSHS A,B\n", " EXG A,B\n", " PSHU D,X\n", " ORG $5000\n", "COUNT EQU 9\n"]))
            firsts.append(m)
            continue
        if c == 0:
            firsts.append(asmcheck.framed(rnd.choice(bad), "invalid").lines)                   # an ill-typed statement of the spec's table, in a frame
        elif c == 1:
            m = list(rnd.choice(base))
            j = rnd.randrange(len(m))
            m[j] = mutate_line(rnd, m[j])
            firsts.append(m)                                                                    # a mutated program
        elif c == 2:
            from harness.props.c13 import SRC_ALPHABET
            firsts.append(list(rnd.choice(base)[:rnd.randint(0, 4)]) + ["".join(rnd.choice(SRC_ALPHABET) for _ in range(rnd.randint(1, 24))) + "\n"])
        else:
            firsts.append([" LDA #%s\n" % rnd.choice(["TAB_LEN+1", "$12345+1", "1+", "+1", "1++2", "K+*", "'A+1", "1+%2", "A B+1", "5/0", "300", "NOSUCH", "NOSUCH+1", "$G1+1", "1+$G1", "65536+1"]),
                           " INCLUDE %s\n" % rnd.choice(["lib.asm", "nosuch.asm"])][:rnd.choice([1, 2])])
    # ONE earlier program per interpreter: every 'first' gets a freshly forked process (the parent has never imported the assembler), so that
    # whatever a first leaves behind is what the probes meet - with several firsts per interpreter only the earliest one could ever matter
    import sys
    ctxmp = mp.get_context("fork" if not any(m.startswith("cocoasm") for m in sys.modules) else "spawn")
    chunks = [firsts[i:i + 1] for i in range(0, len(firsts), 1)]
    with mp.Pool(16) as p:
        solos = p.map(fresh, [(probes, [j], 0) for j in range(1, len(probes) + 1)], chunksize=1)
    with ctxmp.Pool(16, maxtasksperchild=1) as p:
        res = p.map(poison_chunk, [(c, probes) for c in chunks], chunksize=1)
    ref = [dict(evs[0], cfg="solo-fresh") for evs in solos]
    if any(r["out"]["outcome"] != "ok" for r in ref):
        raise tlc.MachineryError("C17 probe program does not assemble: %r" % [r["out"]["msg"] for r in ref if r["out"]["outcome"] != "ok"][:1])
    traces, meta = [], []
    for ci, evss in enumerate(res):
        for xi, ev in enumerate(evss):
            traces.append({"id": len(traces), "events": ref + ev})
            meta.append((ci, xi))
    verd, st = tlc.bulk("Tr_Session", traces, nproc=6, min_chunk=20, heap="4g")
    nv = 0
    for t, (ci, xi) in zip(traces, meta):
        v = verd[t["id"]]
        first_out = t["events"][len(ref)]["out"]
        ctx.add_class("poison|%s|%s" % (first_out["outcome"], (first_out["msg"] or "")[:18]))
        if not v["ok"]:
            e = t["events"][v["at"] - 1]
            f = t["events"][v["first"] - 1] if v["first"] else e
            diff = [k2 for k2 in e["out"] if e["out"][k2] != f["out"][k2]]
            item = {"clause": v["why"], "class": {"cfg": "warm-after-one-program", "first_cfg": f["cfg"], "outcome": e["out"]["outcome"], "differs_in": diff}, "symptom": {}}
            if ctx.report(item, {"kind": "session-poison", "earlier_in_this_interpreter": chunks[ci][:xi + 1][-3:], "probe": probes[e["src"] - 1] if e["src"] != 100 else chunks[ci][xi],
                                 "got": e["out"], "alone_in_fresh_process": f["out"]}) == "violation":
                nv += 1
    ctx.add_suite("poison", len(traces), len(traces), time.time() - t0, {"violating_items": nv, "assemblies": sum(len(t["events"]) for t in traces)})


def run(ctx):
    thorough = ctx.tier == "thorough"
    rnd = random.Random(ctx.seed * 715225739 + 17)
    hists, r = tlc.export("MC_Session", workers=4)
    ctx.add_model("MC_Session(pool 8, length 4)", r, {"invariants": ["Deterministic", "MemoSound"]})
    uniq = sorted(set(tuple(h) for h in hists))
    rnd.shuffle(uniq)
    n = len(uniq) if thorough else 220
    t0 = time.time()
    traces = []
    jobs_w, jobs_f = [], []
    pools = []
    for k, h in enumerate(uniq[:n]):
        pool = make_pool(random.Random(ctx.seed * 1000003 + k // 40))         # a new pool every 40 histories
        pools.append(pool)
        jobs_w.append((pool, list(h)))
        jobs_f.append((pool, list(h), rnd.choice([0, 1, 2, 12345, "random"])))
    # the reference output of a source: assembled ALONE in a fresh interpreter (one subprocess per source of every pool) - a history that is
    # wrong the same way warm and in a fresh process (state leaking from an earlier program of the same history) must still disagree with it
    distinct_pools = []
    for pl in pools:
        if not distinct_pools or distinct_pools[-1] != pl:
            distinct_pools.append(pl)
    solo_jobs = [(pl, [sidx], 0) for pl in distinct_pools for sidx in range(1, len(pl) + 1)]
    import sys
    ctxmp = mp.get_context("fork" if not any(m.startswith("cocoasm") for m in sys.modules) else "spawn")
    with ctxmp.Pool(16, maxtasksperchild=1) as p:          # every warm history starts from an interpreter that has assembled nothing yet
        ws = p.map(warm, jobs_w, chunksize=1)
    with mp.Pool(16) as p:
        fs = p.map(fresh, jobs_f if thorough else jobs_f[::3], chunksize=2)
        solos = p.map(fresh, solo_jobs, chunksize=1)
    solo = {}
    for (pl, h, _), evs in zip(solo_jobs, solos):
        solo[(distinct_pools.index(pl), h[0])] = dict(evs[0], cfg="solo-fresh")
    fi = 0
    for k in range(len(ws)):
        pi = distinct_pools.index(pools[k])
        ev = [solo[(pi, sidx)] for sidx in sorted(set(jobs_w[k][1]))] + list(ws[k])
        if thorough or k % 3 == 0:
            ev += fs[fi]
            fi += 1
        traces.append({"id": k, "events": ev})
    verd, st = tlc.bulk("Tr_Session", traces, nproc=6, min_chunk=20, heap="4g")
    nv = 0
    for t in traces:
        v = verd[t["id"]]
        outs = "".join(e["out"]["outcome"][0] for e in t["events"] if e["cfg"] == "warm")
        ctx.add_class("session|%s|%s" % (outs, len(t["events"])))
        if not v["ok"]:
            e = t["events"][v["at"] - 1]
            f = t["events"][v["first"] - 1] if v["first"] else e
            diff = [k2 for k2 in e["out"] if e["out"][k2] != f["out"][k2]]
            item = {"clause": v["why"], "class": {"cfg": e["cfg"], "first_cfg": f["cfg"], "outcome": e["out"]["outcome"], "differs_in": diff}, "symptom": {}}
            if ctx.report(item, {"kind": "session", "hist": [x["src"] for x in t["events"]], "at": v["at"], "first": v["first"], "pool": pools[t["id"]], "got": e["out"], "before": f["out"]}) == "violation":
                nv += 1
    ctx.add_suite("histories", len(traces), len(traces), time.time() - t0, {"violating_items": nv, "assemblies": sum(len(t["events"]) for t in traces)})
    poison_suite(ctx, rnd, thorough)
    ctx.sample({"hist": [e["src"] for e in traces[0]["events"]], "cfgs": sorted(set(e["cfg"] for e in traces[0]["events"])), "outcomes": [e["out"]["outcome"] for e in traces[0]["events"]]})
    ctx.cov["rule"] = ("every order of <= 4 assemblies over a pool of 8 sources (README example, operand-less program, random valid program, translation error, duplicate label, "
                       "mutated program, two programs that INCLUDE the same file at different positions, one with a label longer than the listing column; pools re-drawn per seed), TLC-exported; every source is assembled alone in a fresh interpreter (the reference), each history is run warm in one interpreter and again in a fresh process under PYTHONHASHSEED "
                       "0/1/2/12345/random; every event carries the full image, listing and symbol table; Tr_Session demands equality with the first output seen for that source, "
                       "and that the input list is unchanged; plus the poison suite: one earlier program out of thousands (ill-typed statements of the spec's table, mutated programs, random lines, malformed expression terms) followed by six probe programs in the same interpreter. distinct_nontrivial = (outcome pattern, events) classes")


def replay(ctx, rp):
    print(rp["replay"]["hist"])
    return 0
