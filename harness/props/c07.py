"""C07 / C08 / C15 - disk images: round trip, structural validity, exact space accounting (one set of runs; each
property owns its clauses)."""
import random, time, multiprocessing as mp
from harness import tlc, containers as ct

OWN = {"C07": {"roundtrip"},
       "C08": {"slot", "chain", "marker", "len", "stream", "dirfields", "outside", "size", "old-disturbed"},
       "C15": {"ngran", "took-used-granule", "acct-should-fit", "acct-should-fail", "slot"},
       "C09": {"old-disturbed", "roundtrip"}}
GB = ct.GB


def gates(ctx, thorough):
    rs = tlc.check_models([("MC_Disk", "MC_Disk4" if thorough else "MC_Disk", 6, "8g"), ("MC_Disk", "MC_DiskSmall", 5, "8g"),
                           ("MC_Disk", "MC_DiskSlots", 2, "4g"), ("MC_Disk", "MC_DiskGrans", 3, "6g")])
    inv = ["ChainsValid", "ChainsDisjoint", "NoOrphan", "LengthConsistent", "Capacity", "FitsIfRoom", "OldFilesStable (action property)"]
    ctx.add_model("MC_Disk(real geometry, depth %d)" % (4 if thorough else 3), rs[0], {"invariants": inv})
    ctx.add_model("MC_DiskSmall(any allocation order / fragmentation)", rs[1], {"invariants": inv})
    ctx.add_model("MC_DiskSlots(74 one-granule adds)", rs[2])
    ctx.add_model("MC_DiskGrans(granule exhaustion, reversed fill order)", rs[3])
    recs, r = tlc.export("MC_DiskLen")
    if recs[0]["bad"] != 0:
        raise tlc.MachineryError("MC_DiskLen: length bookkeeping fails for %d lengths" % recs[0]["bad"])
    ctx.cov["models"]["MC_DiskLen"] = {"kind": "theorem evaluated by TLC, exhaustive", "stream_lengths": recs[0]["lengths"], "wall_s": round(r.wall, 2)}
    r = tlc.check_model("MC_DiskInd", "MC_DiskInd", workers=6, heap="8g")
    ctx.add_model("MC_DiskInd(invariants inductive: every consistent state of the 4-granule / 2-slot geometry, one more add)", r)


def judge(ctx, name, hists, t0):
    verd, st = tlc.bulk("Tr_Disk", hists, nproc=6, min_chunk=8, heap="6g", timeout=3000)
    own = OWN[ctx.prop]
    nv = nsteps = 0
    for h in hists:
        v = verd[h["id"]]
        for c in v["classes"]:
            ctx.add_class("diskfile|" + "|".join(str(c[k]) for k in ("kind", "datalen", "mod", "ngran", "adj", "namelen", "extlen")))
        ctx.add_class("hist|%d|%s|%s" % (min(len(h["events"]), 5), "perm" if h["order"] else "default", h["events"][-1]["result"] if h["events"] else ""))
        for step, items in enumerate(v["verdicts"]):
            nsteps += 1
            for it in items:
                if it["clause"] not in own:
                    continue
                item = {"clause": it["clause"], "class": dict(it["class"], order="perm" if h["order"] else "default"), "symptom": {"why": (it["symptom"]["why"] or "").split(":")[0], "n": it["symptom"]["n"]}}
                ev = h["events"][step]
                rp = {"kind": "disk", "order": h["order"], "step": step, "file_no": it["file"],
                      "files": [dict(e["file"], data="(%d bytes)" % len(e["file"]["data"])) for e in h["events"][:step + 1]],
                      "lens": [len(e["file"]["data"]) for e in h["events"][:step + 1]], "result": ev["result"], "exc": ev["exc"], "listed_exc": ev["listed"]["exc"]}
                if ctx.report(item, rp) == "violation":
                    nv += 1
    ctx.add_suite(name, len(hists), nsteps, time.time() - t0, {"violating_items": nv})
    h = hists[len(hists) // 2]
    ctx.sample({"suite": name, "order": h["order"][:8], "adds": [[e["file"]["type"], e["file"]["dtype"], len(e["file"]["data"]), e["result"]] for e in h["events"][:6]]})


def run_histories(ctx, name, specs):
    t0 = time.time()
    with mp.Pool(16) as pool:
        hists = pool.map(ct.disk_history, [(k, o, fs) for k, (o, fs) in enumerate(specs)], chunksize=4)
    judge(ctx, name, hists, t0)


def boundary_histories(rnd, thorough):
    specs = []
    near = list(range(-11, 3))
    Ls = [0, 1, 2, 3, 5, 10, 11, 255, 256, 257, 266] + [GB * k + d for k in (1, 2) for d in near] + [GB * 3, GB * 3 + 1, 20000, 65535 + 10]
    if thorough:
        Ls += [256 * k + d for k in range(1, 40) for d in (-10, -1, 0, 1, 10)] + [GB * k + d for k in range(3, 29) for d in (-10, -5, -1, 0, 1, 5)]
    for kind in ("ML", "BAS", "ASC", "MLA", "DAT", "BASA", "TXT", "TXB"):
        extra = ct.KINDS[kind][2]
        for L in (Ls if kind in ("ML", "BAS", "ASC") else [1, 11, 300, 2303, 2304, 2305, 2309, 4609]):
            if L - extra < 0 or L - extra > 65535:
                continue
            specs.append((None, [ct.disk_file(rnd, "F", kind, L)]))
    addrs = [0, 1, 0x7F, 0x80, 0xFF, 0x100, 0x101, 0xFFF, 0x1000, 0x7FFF, 0x8000, 0xFF00, 0xFFFF]
    for i, a in enumerate(addrs):                      # load / entry addresses at every byte boundary
        f = ct.disk_file(rnd, "AD%d" % i, "ML", 40)
        f["a1"], f["a2"] = a, addrs[(i * 5 + 2) % len(addrs)]
        specs.append((None, [f]))
    for nm, ext in (("A", "BIN"), ("ABCDEFGH", "BIN"), ("ABCDEFGHI", "BIN"), ("abcdefghijkl", "bas"), ("lower", ""), ("Mixed1", "Tx"), ("X1", "ABCD")):
        specs.append((None, [ct.disk_file(rnd, nm, "ML", 100, ext=ext)]))
    return specs


def random_histories(rnd, n, perm_share=0.4):
    specs = []
    lens = [0, 1, 10, 245, 246, 256, 500, 2293, 2294, 2295, 2299, 2303, 2304, 2305, 2309, 2310, 4598, 4599, 4603, 4608, 4609, 7000, 12000, 20000]
    for _ in range(n):
        order = None
        if rnd.random() < perm_share:
            order = list(range(68))
            rnd.shuffle(order)
        k = rnd.choice([2, 3, 3, 4, 6])
        fs = [ct.disk_file(rnd, "G%d" % i, rnd.choice(["ML", "ML", "BAS", "ASC", "MLA", "DAT", "BASA", "TXT"]), rnd.choice(lens)) for i in range(k)]
        specs.append((order, fs))
    return specs


def exhaustion_histories(rnd, thorough):
    specs = [(None, [ct.disk_file(rnd, "S%d" % k, "ML", 20) for k in range(75)]),
             (None, [ct.disk_file(rnd, "B%d" % k, "ML", GB * 3 - 20) for k in range(25)]),
             (None, [ct.disk_file(rnd, "E%d" % k, "ASC", GB) for k in range(36)]),
             (list(reversed(range(68))), [ct.disk_file(rnd, "R%d" % k, "BAS", 5000) for k in range(24)])]
    for _ in range(6 if thorough else 1):
        order = list(range(68))
        rnd.shuffle(order)
        specs.append((order, [ct.disk_file(rnd, "M%d" % k, rnd.choice(["ML", "BAS", "ASC"]), rnd.choice([30, 2304, 2400, 5000, 9000])) for k in range(80)]))
    return specs


def model_sequences(ctx, rnd, thorough):
    """spec -> code: the add-sequences of the abstract machine, with the outcome it requires of each add"""
    t0 = time.time()
    recs, wall = tlc.cached_export_parts("Gen_DiskSeq", 6, env={"DEPTH": "3" if thorough else "2"})
    if len(recs) > (4000 if thorough else 350):
        recs = rnd.sample(recs, 4000 if thorough else 350)
    specs = []
    for r in recs:
        fs = []
        for i, L in enumerate(r["lens"]):
            kind = rnd.choice([k for k in ("ML", "ML", "BAS", "ASC", "MLA", "DAT", "BASA") if 0 <= L - ct.KINDS[k][2] <= 65535])
            fs.append(ct.disk_file(rnd, "Q%d" % i, kind, L))
        specs.append((None, fs))
    with mp.Pool(16) as pool:
        hists = pool.map(ct.disk_history, [(k, o, fs) for k, (o, fs) in enumerate(specs)], chunksize=4)
    for r, h in zip(recs, hists):
        got = [e["result"] for e in h["events"]]
        for i, exp in enumerate(r["expect"]):
            if i >= len(got):
                break
            g = "ok" if got[i] == "ok" else "fail"
            if exp != "either" and exp != g and ctx.prop == "C15":
                ctx.report({"clause": "model-outcome", "class": {"lens": r["lens"], "step": i}, "symptom": {"expected": exp, "got": g}}, {"kind": "disk", "lens": r["lens"], "expect": r["expect"], "got": got})
    judge(ctx, "model-sequences", hists, t0)


def spec_written_images(ctx, rnd, n):
    """reader direction: well-formed images with chains in any order / not adjacent, written by the specification"""
    if ctx.prop not in ("C07",):
        return
    t0 = time.time()
    ins = []
    for k in range(n):
        free = list(range(68))
        rnd.shuffle(free)
        if k % 4 == 0:
            free = sorted(free)         # physically ascending chains as a control group
        nf = rnd.choice([1, 1, 2, 3])
        files, chains = [], []
        for i in range(nf):
            kind = rnd.choice(["ML", "ML", "BAS", "ASC", "MLA", "DAT", "BASA"])
            L = rnd.choice([1, 11, 300, 2299, 2300, 2304, 2305, 2309, 2310, 4600, 4608, 4609, 4613, 7000, 11520])
            f = ct.disk_file(rnd, "W%d" % i, kind, L)
            sl = len(f["data"]) + ct.KINDS[kind][2]
            ng = sl // GB + 1 if rnd.random() < 0.7 or sl % GB else max(1, sl // GB)
            if sl == 0:
                ng = 1
            files.append(ct.jfile(f))
            chains.append([free.pop() for _ in range(ng)])
        # directory slots: contiguous from the first one, or with killed entries before / between the files (every third image)
        slots = list(range(1, nf + 1)) if k % 3 else sorted(rnd.sample(range(1, rnd.choice([nf + 1, nf + 2, 12, 72]) + 1), nf))
        ins.append({"id": k, "files": files, "chains": chains, "slots": slots})
    out, st = tlc.bulk("Gen_Disk", ins, cfg="Gen_Disk", nproc=6, min_chunk=8, heap="6g")
    recs = []
    for i in ins:
        buf = ct.expand_sparse(out[i["id"]])
        recs.append({"id": i["id"], "files": i["files"], "chains": i["chains"], "listed": ct.list_disk(buf)})
    verd, st = tlc.bulk("Tr_DiskRead", recs, cfg="Tr_DiskRead", nproc=6, min_chunk=8, heap="6g")
    nv = 0
    for r in recs:
        v = verd[r["id"]]
        for c in v["classes"]:
            ctx.add_class("specimg|" + "|".join(str(c[k]) for k in ("kind", "mod", "ngran", "adj")))
        if v["firstbad"]:
            fb = min(v["firstbad"], len(v["classes"]))
            item = {"clause": "roundtrip", "class": dict(v["classes"][fb - 1], order="spec-written"), "symptom": {"why": v["exc"].split(":")[0], "n": 0}}
            if ctx.report(item, {"kind": "disk-read", "chains": r["chains"], "lens": [len(f["data"]) for f in r["files"]], "types": [f["type"] for f in r["files"]], "listed_exc": r["listed"]["exc"]}) == "violation":
                nv += 1
    ctx.add_suite("spec-written-images", len(recs), len(recs), time.time() - t0, {"violating_items": nv})


def run(ctx):
    thorough = ctx.tier == "thorough"
    rnd = random.Random(ctx.seed * 2038074743 + int(ctx.prop[1:]))
    gates(ctx, thorough)
    model_sequences(ctx, rnd, thorough)
    run_histories(ctx, "boundary-lengths", boundary_histories(rnd, thorough))
    run_histories(ctx, "random-histories", random_histories(rnd, 1500 if thorough else (60 if ctx.prop == "C15" else 120)))
    run_histories(ctx, "exhaustion", exhaustion_histories(rnd, thorough))
    spec_written_images(ctx, rnd, 600 if thorough else 60)
    if ctx.prop == "C08":
        # images written through the host path (VirtualFile / file_util), in particular by commands that store several large files and run out of room half way
        from harness.props import c09, c10
        t1 = time.time()
        c10.judge(ctx, "overflow-conversions", c10.replay_histories(c09.overflow_histories(rnd, thorough)), t1, own=c10.OWN["C08"])
    if ctx.prop == "C15":
        # host level: a file that does not fit fails with an error and the host file is left as it was
        from harness.props import c09
        r = tlc.check_model("MC_Host", "MC_Host", workers=6, heap="8g")
        ctx.add_model("MC_Host(CapacityRespected)", r)
        c09.host_suites(ctx, rnd, thorough, n_sample=1500 if thorough else 0)   # the full first-step matrix (incl. full disks) + append sequences to a full disk
    ctx.cov["rule"] = ("add-sequences of the abstract allocation machine (TLC-exported), single files at every stream length within 11 bytes of a granule multiple and at sector "
                       "boundaries x {ML, BASIC, ASCII}, names/extensions of all length classes, random 2-6 file histories under default and permuted fill orders, runs to a full "
                       "disk (slots, granules, mixtures); after every add the image delta is judged by TLC (Tr_Disk) per file; for C07 also images written by the specification "
                       "with arbitrary chains. distinct_nontrivial = stored-file classes (kind, data length class, stream length mod granule, granules, physical adjacency of "
                       "the chain, name/extension length) + history shapes")
    ctx.assumptions += ["an add that fails ends the history (the in-memory image of a failed add is not reused)"]


def replay(ctx, rp):
    print(rp["replay"])
    return 0
