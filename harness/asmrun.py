"""Drive many programs through the real assembler in worker processes and return trace records."""
import multiprocessing as mp
from harness import asmio


def _one(case, hooks=False):
    tid, prog, lines = case
    rec = asmio.assemble(list(lines), hooks=hooks)
    t = asmio.trace_of(tid, prog, lines, rec)
    extra = {"exc": rec["exc"], "site": rec["site"], "msg": rec["msg"], "adapter": rec["adapter"], "input_intact": rec["input_intact"],
             "hooks": rec["hooks"], "name": rec["name"]}
    return t, extra


def _one_hooks(case):
    return _one(case, hooks=True)


def run(cases, nproc=16, chunksize=200, hooks=False):
    """cases: list of (id, prog, lines).  Returns (traces, extras_by_id)."""
    if not cases:
        return [], {}
    with mp.Pool(nproc) as pool:
        res = pool.map(_one_hooks if hooks else _one, cases, chunksize=chunksize)
    traces = [t for t, _ in res]
    extras = {t["id"]: x for t, x in res}
    return traces, extras


NOP = asmio.stmt("NOP")


def frame(s):
    """L1 NOP / s / L2 NOP: the statement's reserved size becomes observable through L2's address."""
    a = dict(NOP, label="L1")
    b = dict(NOP, label="L2")
    return [a, s, b]
