"""Drive many programs through the real assembler in worker processes and return trace records."""
import multiprocessing as mp
from harness import asmio


def _one(case, hooks=False):
    tid, prog, lines = case
    rec = asmio.assemble(list(lines), hooks=hooks)
    t = asmio.trace_of(tid, prog, lines, rec)
    extra = {"exc": rec["exc"], "site": rec["site"], "msg": rec["msg"], "adapter": rec["adapter"], "input_intact": rec["input_intact"],
             "hooks": rec["hooks"], "name": rec["name"], "stmts": rec["stmts"]}
    return t, extra


def _one_hooks(case):
    return _one(case, hooks=True)


def run(cases, nproc=16, chunksize=200, hooks=False):
    """cases: list of (id, prog, lines).  Returns (traces, extras_by_id)."""
    if not cases:
        return [], {}
    res = []
    with mp.Pool(nproc) as pool:
        # in batches: once many assemblies have hit the watchdog (a hang introduced by a change), the rest of the suite is
        # not run - the hangs already seen are the result, and the check must still end in reasonable time
        global HANGS_SEEN
        B = 400 if not HANGS_SEEN else 160
        hung = 0
        for a in range(0, len(cases), B):
            if hung > 12 or (HANGS_SEEN and a >= B):
                HANGS_SEEN = True
                break
            part = pool.map(_one_hooks if hooks else _one, cases[a:a + B], chunksize=min(chunksize, 100))
            hung += sum(1 for t, _ in part if t["outcome"] == "timeout")
            res.extend(part)
    cases = cases[:len(res)]
    # a bare watchdog timeout is re-run once, alone, with a 30 s limit before it is believed (machine load must not become an alarm)
    res = list(res)
    global CONFIRMED
    for k, (t, x) in enumerate(res):
        if t["outcome"] == "timeout" and CONFIRMED < 2:       # after two confirmed hangs the rest are taken as observed
            tid, prog, lines = cases[k]
            rec = asmio.assemble(list(lines), timeout=20, hooks=hooks)
            t2 = asmio.trace_of(tid, prog, lines, rec)
            if t2["outcome"] == "timeout":
                CONFIRMED += 1
            else:
                res[k] = (t2, {"exc": rec["exc"], "site": rec["site"], "msg": rec["msg"], "adapter": rec["adapter"], "input_intact": rec["input_intact"],
                               "hooks": rec["hooks"], "name": rec["name"], "stmts": rec["stmts"]})
    traces = [t for t, _ in res]
    extras = {t["id"]: x for t, x in res}
    return traces, extras


HANGS_SEEN = False
CONFIRMED = 0
NOP = asmio.stmt("NOP")


def frame(s):
    """L1 NOP / s / L2 NOP: the statement's reserved size becomes observable through L2's address."""
    a = dict(NOP, label="L1")
    b = dict(NOP, label="L2")
    return [a, s, b]
