"""Replaying command-line histories (assembler.py / file_util.py, in-process through main()) on a temp dir and
recording, per step, what Tr_Host.tla judges."""
import os, sys, io, contextlib, tempfile, shutil, json, re
from harness import asmio, containers as ct

BIGLEN = 60000


def program_file(pid, named=True):
    data = [0x86, pid % 200, 0x39]
    return ct.mkfile("P%d" % pid, data, 2, 0, 0x0E00, 0x0E00)


_EXACT = {}


def exact_tape_files():
    """files 160..163: four machine language files of arbitrary bytes whose tape is EXACTLY as long as a disk image (161,280 bytes) - a tape the disk reader is tried on first"""
    if not _EXACT:
        import random
        rnd = random.Random(160)
        files = [ct.mkfile("X%d" % i, [rnd.randrange(256) for _ in range(39000)], 2, 0, 0x1000 + i, 0x1000) for i in range(160, 164)]
        for _ in range(2000):
            d = ct.IMG - len(ct.write_tape(files))
            if d == 0:
                break
            files[-1]["data"] = files[-1]["data"] + [rnd.randrange(256) for _ in range(d)] if d > 0 else files[-1]["data"][:d]
        else:
            raise RuntimeError("no tape of exactly %d bytes found" % ct.IMG)
        for i, f in zip(range(160, 164), files):
            _EXACT[i] = f
    return _EXACT


def stored_file(fid, big=False):
    if 160 <= fid <= 163:
        return exact_tape_files()[fid]
    if fid == 150:
        # a file whose DATA is itself a complete cassette recording (a disk holding it must still be taken for a disk)
        return ct.mkfile("F150", ct.write_tape([ct.mkfile("INNER", [1, 2, 3, 4, 5], 2, 0, 0x3000, 0x3000)]), 2, 0, 0x0E00, 0x0E10)
    n = BIGLEN if big else 12 + fid % 7
    data = [0] * n if big else [(i * 7 + fid) & 255 for i in range(n)]
    return ct.mkfile("F%d" % fid, data, 2, 0, 0x0E00 + fid, 0x0E10)


def source_file(fid, name=None, big=0):
    n = big if big else 20 + fid % 5
    return ct.mkfile(name or "S%d" % fid, [(i * 5 + fid) & 255 for i in range(n)], 2, 0, 0x1000 + fid, 0x1004)


def materialise(init):
    k = init["kind"]
    if k == "absent":
        return None
    if k == "empty":
        return b""
    if k == "raw":
        return bytes(stored_file(init["files"][0])["data"]) if init["files"] else bytes([0x86, 0x01, 0x39])
    if k == "junk":
        return bytes(((i * 37 + 11) % 256) if ((i * 37 + 11) % 256) != 0x3C else 0x3D for i in range(5000))
    if k == "cas":
        return bytes(ct.write_tape([stored_file(f, init["big"]) for f in init["files"]]))
    if k == "dsk":
        from cocoasm.virtualfiles.disk import DiskFile
        d = DiskFile()
        d.add_files([ct.to_coco(full_file(f)) if init.get("full") else ct.to_coco(stored_file(f)) for f in init["files"]])
        return bytes(d.get_buffer())
    raise ValueError(k)


def full_file(fid):
    """files 101, 102, 103 take 23 + 23 + 22 = 68 granules: together they fill a disk completely"""
    ng = 22 if fid % 3 == 1 else 23
    return ct.mkfile("F%d" % fid, [(i * 3 + fid) & 255 for i in range(ng * ct.GB - 20)], 2, 0, 0x0E00 + fid, 0x0E10)


def import_cli(*names):
    """import the command line modules; a module that runs its main() on import (a broken `if __name__ == "__main__"` guard) must surface as an
    exception of the harness, not kill a pool worker with SystemExit (which would hang the pool)"""
    import importlib
    out = []
    for n in names:
        try:
            out.append(importlib.import_module(n))
        except BaseException as e:
            raise RuntimeError("importing %s.py executed code that ended with %s: %s" % (n, type(e).__name__, e))
    return out if len(out) > 1 else out[0]


def run_main(mod, argv):
    out = io.StringIO()
    code = 0
    old = sys.argv
    sys.argv = [mod.__name__] + argv
    try:
        with contextlib.redirect_stdout(out), contextlib.redirect_stderr(out):
            try:
                mod.main(mod.parse_arguments())
            except SystemExit as e:
                code = e.code if isinstance(e.code, int) else (0 if e.code is None else 1)
            except BaseException as e:
                code = 99
                print("TRACEBACK", type(e).__name__, e)
    finally:
        sys.argv = old
    return code, out.getvalue()


def observe(path, sw, changed, sw2=""):
    """sw2: the same invocation names the path under a second switch as well - what is there is recorded for both readings"""
    p = {"exists": os.path.exists(path), "len": 0, "tape": [], "fat": [], "dir": [], "grans": [], "raw": []}
    if not p["exists"]:
        return p, None
    b = open(path, "rb").read()
    p["len"] = len(b)
    if changed:
        kinds = {sw, sw2} - {""}
        if "dsk" in kinds and len(b) == ct.IMG:
            snap = ct.snapshot_delta([0xFF] * ct.IMG, list(b))
            p["fat"], p["dir"], p["grans"] = snap["fat"], snap["dir"], snap["grans"]
        if "cas" in kinds and not ("dsk" in kinds and len(b) == ct.IMG):
            p["tape"] = list(b)
        if "bin" in kinds:
            p["raw"] = list(b[:70000])
    return p, b


def replay(args):
    """history = {"init": content, "cmds": [...], "full": bool}; returns the Tr_Host record"""
    assembler, file_util = import_cli("assembler", "file_util")
    from cocoasm import _verif
    hid, h = args
    W = tempfile.mkdtemp(prefix="host", dir=os.environ.get("VERIF_SCRATCH"))
    t = os.path.join(W, "t.img")
    cat = {}
    events = []
    try:
        init = dict(h["init"])
        init["full"] = h.get("full", False)
        for f in init["files"]:
            cat[f] = full_file(f) if (init["kind"] == "dsk" and init["full"]) else stored_file(f, init.get("big", False))
        try:
            b = bytes(h["initbuf"]) if h.get("initbuf") is not None else materialise(init)      # initbuf: an image written by the specification's writer
        except Exception as e:
            return {"id": hid, "init": {"kind": h["init"]["kind"], "big": h["init"]["big"], "files": h["init"]["files"]}, "cat": [], "events": [],
                    "construct_error": "%s: %s" % (type(e).__name__, str(e)[:80])}
        if b is not None:
            open(t, "wb").write(b)
        for k, cmd in enumerate(h["cmds"]):
            cmd = dict(cmd)
            cmd.setdefault("sw2", "")        # the same invocation names the target under a second switch too (--to_bin P --to_cas P)
            preb = open(t, "rb").read() if os.path.exists(t) else None
            listed = []
            _verif.reset()
            if cmd["tool"] == "api":
                # the VirtualFile API directly: open, add one catalogue file, save with append (what --append does)
                from cocoasm.virtualfiles.virtual_file import VirtualFile, VirtualFileType
                from cocoasm.virtualfiles.source_file import SourceFile, SourceFileType
                f = cmd.pop("file")
                cat[cmd["new"][0]] = f
                out_s = io.StringIO()
                code = 0
                try:
                    vf = VirtualFile(SourceFile(t, file_type=SourceFileType.BINARY), {"cas": VirtualFileType.CASSETTE, "dsk": VirtualFileType.DISK, "bin": VirtualFileType.BINARY}[cmd["sw"]])
                    vf.open_virtual_file()
                    vf.add_coco_file(ct.to_coco(f))
                    vf.save_virtual_file(append_mode=cmd["app"])
                except Exception as e:
                    code = 1
                    out_s.write("%s: %s" % (type(e).__name__, e))
                    if type(e).__name__ not in ("VirtualFileValidationError", "FileExistsError"):
                        out_s.write(" TRACEBACK")
                out = out_s.getvalue()
            elif cmd["tool"] == "asm":
                pid = 900 + k
                cmd["new"] = [pid]
                cat[pid] = program_file(pid)
                src = os.path.join(W, "p%d.asm" % k)
                open(src, "w").write((" NAM P%d\n" % pid if cmd["named"] else "") + " ORG $0E00\nS LDA #%d\n RTS \n" % (pid % 200))
                argv = [src, "--to_" + cmd["sw"], t] + (["--to_" + cmd["sw2"], t] if cmd["sw2"] else []) + (["--append"] if cmd["app"] else [])
                if h.get("extra") and cmd["named"]:
                    # the same command also writes its other kinds of output to OTHER (new) paths: what lands at t must not depend on that
                    for x in ("bin", "cas", "dsk"):
                        if x != cmd["sw"]:
                            argv += ["--to_" + x, os.path.join(W, "extra%d.%s" % (k, x))]
                code, out = run_main(assembler, argv)
            elif cmd["sw"] == "list":
                code, out = run_main(file_util, [t, "--list"])
                names = re.findall(r"Filename:\s+(.*)", out)
                lens = re.findall(r"Data Len:\s+(\d+) bytes", out)
                listed = [{"name": ct.codes(n.rstrip("\r\n")), "len": int(l)} for n, l in zip(names, lens)] if len(names) == len(lens) else [{"name": [], "len": -2}]
            else:
                ids = list(range(201, 201 + cmd["srcn"]))
                names = h.get("srcnames") or {}
                files = [source_file(i, names.get(str(i)), big=h.get("srcbig", 0)) for i in ids]     # srcbig: every source file that long (several granules)
                for i, f in zip(ids, files):
                    cat[i] = f
                sp = os.path.join(W, "src%d.%s" % (k, h.get("srckind", "cas")))
                if h.get("srckind", "cas") == "cas":
                    open(sp, "wb").write(bytes(ct.write_tape(files)))
                else:
                    from cocoasm.virtualfiles.disk import DiskFile
                    d = DiskFile()
                    d.add_files([ct.to_coco(f) for f in files])
                    open(sp, "wb").write(bytes(d.get_buffer()))
                argv = [sp, "--to_" + cmd["sw"], t] + (["--to_" + cmd["sw2"], t] if cmd["sw2"] else []) + (["--append"] if cmd["app"] else [])
                sel = cmd.get("select")
                if sel is not None:
                    argv += ["--files"] + sel
                elif cmd["new"] != ids:
                    argv += ["--files"] + ([cat[i]["name"] for i in cmd["new"]] or ["NOSUCH"])
                if h.get("extra"):
                    for x in ("cas", "dsk"):
                        if x != cmd["sw"]:
                            argv += ["--to_" + x, os.path.join(W, "extra%d.%s" % (k, x))]
                code, out = run_main(file_util, argv)
            hooks = [dict({"ev": "", "exists": False, "sniffed": "", "wrote": False}, **{k2: v for k2, v in e.items() if k2 in ("ev", "exists", "sniffed", "wrote")})
                     for e in _verif.drain() if e["ev"] in ("Open", "Save") and e.get("name") == t]
            postb = open(t, "rb").read() if os.path.exists(t) else None
            same = preb == postb
            post, _ = observe(t, cmd["sw"], not same, cmd["sw2"])
            cmd.pop("select", None)
            events.append({"cmd": cmd, "same": same, "exit": code, "msg": len(out.strip()) > 0, "tb": "TRACEBACK" in out or "Traceback" in out,
                           "post": post, "hooks": hooks, "stdout": out[-200:], "listed": listed})
    finally:
        shutil.rmtree(W, ignore_errors=True)
    return {"id": hid, "init": {"kind": h["init"]["kind"], "big": h["init"]["big"], "files": h["init"]["files"]},
            "cat": [{"id": i, "f": ct.jfile(f)} for i, f in sorted(cat.items())], "events": events}
