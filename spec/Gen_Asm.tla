------------------------------ MODULE Gen_Asm ------------------------------
(* Export of the programs explored by MC_Asm: every program of <= 2 statements over the templates x labels, and a
   pseudo-random subset of the 3-statement ones (TLC's Randomization module, seeded by IOEnv.SEED) *)
EXTENDS AsmTemplates, Json, IOUtils, Randomization
Labelled == {[t EXCEPT !.label = l] : t \in Tpl, l \in {"", "LA", "LB"}}
P12 == UNION {[1..n -> Labelled] : n \in 1..2}
N3 == atoi(IOEnv.N3)
P3 == {<<a, b, c>> : a \in RandomSubset(40, Labelled), b \in RandomSubset(12, Labelled), c \in RandomSubset((N3 \div 480) + 1, Labelled)}
Out == SetToSeq({[prog |-> p] : p \in P12 \cup P3})
VARIABLE x
Init == x = 0 /\ ndJsonSerialize(IOEnv.OUT_FILE, Out) /\ PrintT(<<"cases", Len(Out)>>)
Next == UNCHANGED x
Spec == Init /\ [][Next]_x
=============================================================================
