SPECIFICATION Spec
CONSTANTS NG = 4
 GB = 4
 SB = 2
 SLOTS = 2
 Lens = {0, 1, 3, 4, 5, 8, 9, 12}
INVARIANT Inductive
INVARIANT EmptyOK
CHECK_DEADLOCK FALSE
