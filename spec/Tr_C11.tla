------------------------------ MODULE Tr_C11 ------------------------------
(* C11: what assembler.py saved, read back with the specification's readers.
   t = [id, image, origin, entry (set of admissible entry addresses), name (expected: NAM operand, else --name; <<>> = none),
        want : [bin, cas, dsk] (switches given), bin : [exists, raw], cas : [exists, tape], dsk : [exists, len, fat, dir, grans],
        listed_cas / listed_dsk : what file_util --list reports : [ok, files : Seq([name, len, load, exec])]]          *)
EXTENDS Integers, Sequences, FiniteSets, SequencesExt, TLC, Json, IOUtils
T == INSTANCE Tape WITH BLK <- 255
D == INSTANCE DiskBytes WITH NG <- 68, GB <- 2304, SB <- 256, SLOTS <- 72
Batch == ndJsonDeserialize(IOEnv.TRACE_FILE)
Up(c) == IF c \in 97..122 THEN c - 32 ELSE c
UpS(s) == [k \in DOMAIN s |-> Up(s[k])]
RStrip(s) == LET ks == {k \in DOMAIN s : s[k] \notin {32, 0}} IN IF ks = {} THEN <<>> ELSE SubSeq(s, 1, CHOOSE k \in ks : \A j \in ks : j <= k)
Name8(n) == LET m == RStrip(n) IN UpS(IF Len(m) > 8 THEN SubSeq(m, 1, 8) ELSE m)
GrFun(grans) == [g \in {grans[i].g : i \in DOMAIN grans} |-> grans[CHOOSE i \in DOMAIN grans : grans[i].g = g].b]
OneFile(t, fs, prefix) ==
  IF Len(fs) # 1 THEN {prefix \o "-onefile"} ELSE
  LET f == fs[1] IN
     (IF f.type # 2 THEN {prefix \o "-ml"} ELSE {})
  \cup (IF f.data # t.image THEN {prefix \o "-data"} ELSE {})
  \cup (IF f.a1 # t.origin THEN {prefix \o "-load"} ELSE {})
  \cup (IF f.a2 \notin {t.entry[k] : k \in DOMAIN t.entry} THEN {prefix \o "-entry"} ELSE {})
  \cup (IF Name8(f.name) # Name8(t.name) THEN {prefix \o "-name"} ELSE {})
ListAgrees(lst, fs) == lst.ok /\ Len(lst.files) = Len(fs) /\ \A k \in DOMAIN fs :
      Name8(lst.files[k].name) = Name8(fs[k].name) /\ lst.files[k].len = Len(fs[k].data) /\ lst.files[k].load = fs[k].a1 /\ lst.files[k].exec = fs[k].a2
Judge(t) ==
  LET named == t.name # <<>>
      bad ==
        (IF t.want.bin THEN (IF ~t.bin.exists THEN {"bin-missing"} ELSE IF t.bin.raw # t.image THEN {"bin-exact"} ELSE {}) ELSE (IF t.bin.exists THEN {"bin-unasked"} ELSE {}))
   \cup (IF t.want.cas /\ named THEN
            (IF ~t.cas.exists THEN {"cas-missing"} ELSE
             LET r == T!ParseTape(t.cas.tape) IN IF ~r.ok THEN {"cas-wellformed"} ELSE OneFile(t, r.files, "cas") \cup (IF ListAgrees(t.listed_cas, r.files) THEN {} ELSE {"cas-list"}))
         ELSE (IF t.cas.exists THEN {"cas-created-without-name"} ELSE {}))
   \cup (IF t.want.dsk /\ named THEN
            (IF ~t.dsk.exists THEN {"dsk-missing"} ELSE
             IF t.dsk.len # 161280 \/ ~D!FsckOK(t.dsk.fat, t.dsk.dir) THEN {"dsk-wellformed"} ELSE
             LET r == D!ReadAll(t.dsk.fat, t.dsk.dir, GrFun(t.dsk.grans)) IN IF ~r.ok THEN {"dsk-readable"} ELSE OneFile(t, r.files, "dsk") \cup (IF ListAgrees(t.listed_dsk, r.files) THEN {} ELSE {"dsk-list"}))
         ELSE (IF t.dsk.exists THEN {"dsk-created-without-name"} ELSE {}))
  IN [id |-> t.id, failed |-> SetToSeq(bad)]
VARIABLE x
Init == x = 0 /\ ndJsonSerialize(IOEnv.OUT_FILE, [k \in DOMAIN Batch |-> Judge(Batch[k])])
Next == UNCHANGED x
Spec == Init /\ [][Next]_x
=============================================================================
