----------------------------- MODULE Tr_Session -----------------------------
(* C17 trace validation: one trace = every assembly of a history, in every configuration it was run in (same
   interpreter warm, fresh process, different hash seeds); each event = [src, cfg, out (digest record), intact].
   The memo machine demands the same output whenever a source is seen again, in whatever configuration.     *)
EXTENDS Session, Json, IOUtils
Batch == ndJsonDeserialize(IOEnv.TRACE_FILE)
Judge(t) ==
  LET r == FoldLeft(LAMBDA acc, e : IF ~acc.ok THEN acc ELSE
                       LET a == Assemble(acc.memo, e.src, e.out) IN
                       IF ~e.intact THEN [acc EXCEPT !.ok = FALSE, !.why = "input-modified", !.at = acc.n + 1]
                       ELSE IF ~a.ok THEN [acc EXCEPT !.ok = FALSE, !.why = "differs", !.at = acc.n + 1, !.first = acc.seen[e.src]]
                       ELSE [acc EXCEPT !.memo = a.memo, !.n = @ + 1, !.seen = IF e.src \in DOMAIN acc.seen THEN acc.seen ELSE [s \in DOMAIN acc.seen \cup {e.src} |-> IF s = e.src THEN acc.n + 1 ELSE acc.seen[s]]],
                     [ok |-> TRUE, why |-> "", at |-> 0, first |-> 0, memo |-> <<>>, n |-> 0, seen |-> <<>>], t.events)
  IN [id |-> t.id, ok |-> r.ok, why |-> r.why, at |-> r.at, first |-> r.first]
VARIABLE x
Init == x = 0 /\ ndJsonSerialize(IOEnv.OUT_FILE, [k \in DOMAIN Batch |-> Judge(Batch[k])])
Next == UNCHANGED x
Spec == Init /\ [][Next]_x
=============================================================================
