------------------------------ MODULE MC_Host ------------------------------
(* Every history of <= Depth invocations of the two tools on one target path, from every kind of initial content.
   The state machine takes ANY post content the table Allowed(..) admits; the invariants are the properties C09 / C10 /
   C15 / C11 phrased independently - so TLC checks that the table the implementation is judged by says what the
   properties say.  Behaviours (initial content + command sequence) are exported for replay through the real CLIs. *)
EXTENDS Host, Json, IOUtils
CONSTANTS Depth, Cap
Fits(ids) == Len(ids) <= Cap                     \* abstract capacity (the trace judge uses Disk.tla's granule accounting)
Cmds == [tool : {"asm"}, sw : {"bin", "cas", "dsk"}, app : BOOLEAN, named : BOOLEAN, new : {<<9>>}, srcn : {0}]
   \cup [tool : {"util"}, sw : {"bin", "cas", "dsk"}, app : BOOLEAN, named : {TRUE}, new : {<<>>, <<201>>, <<201, 202>>}, srcn : {1, 2}]
   \cup [tool : {"util"}, sw : {"list"}, app : {FALSE}, named : {TRUE}, new : {<<>>}, srcn : {0}]
\* (C("dsk", FALSE, <<>>) is a formatted disk holding no file)
Inits == {Absent, C("empty", FALSE, <<>>), C("cas", FALSE, <<101, 102>>), C("cas", TRUE, <<101, 102, 103>>),
          C("dsk", FALSE, <<101, 102>>), C("dsk", FALSE, [k \in 1..Cap |-> 100 + k]), C("dsk", FALSE, <<>>), C("raw", FALSE, <<101>>), C("junk", FALSE, <<>>)}
VARIABLES fs, hist
vars == <<fs, hist>>
Init == fs \in Inits /\ hist = <<[init |-> fs]>>
Run(cmd, post) == /\ Len(hist) <= Depth
                  /\ fs' = post
                  /\ hist' = Append(hist, [cmd |-> cmd, pre |-> fs, post |-> post])
Next == \E cmd \in Cmds : (cmd.tool = "util" => Len(cmd.new) <= cmd.srcn) /\ \E post \in Allowed(fs, cmd, Fits) : Run(cmd, post)
Spec == Init /\ [][Next]_vars
LastEv == hist[Len(hist)]
PropInv == Len(hist) > 1 => /\ OnlyAppendModifies(LastEv.pre, LastEv.cmd, LastEv.post)
                           /\ CompleteImage(LastEv.pre, LastEv.cmd, LastEv.post)
                           /\ AppendPreserves(LastEv.pre, LastEv.cmd, LastEv.post)
                           /\ AppendHappens(LastEv.pre, LastEv.cmd, LastEv.post, Fits)
                           /\ CapacityRespected(LastEv.pre, LastEv.cmd, LastEv.post, Fits)
                           /\ NewPathHoldsNew(LastEv.pre, LastEv.cmd, LastEv.post)
                           /\ ReadOnly(LastEv.pre, LastEv.cmd, LastEv.post)
\* a stored file is never lost over a whole history (C09 over sequences): ids only ever get appended while the kind stays
NeverLost == \A i \in 2..Len(hist) : (hist[i].pre.kind \in {"cas", "dsk"} /\ hist[i].post.kind = hist[i].pre.kind) => IsPrefix(hist[i].pre.files, hist[i].post.files)
\* ONE invocation naming the same path under two switches = two consecutive steps with the same tool / flags / files and different switches (the judge composes
\* the table the same way, Tr_Host!AllowedSeq): what the first save created is an existing target for the second - kept as it is unless the second appends to its own kind
SameInvocation(a, b) == a.tool = b.tool /\ a.app = b.app /\ a.named = b.named /\ a.new = b.new /\ a.srcn = b.srcn /\ a.sw # b.sw /\ "list" \notin {a.sw, b.sw}
SamePathTwice == \A i \in 2..(Len(hist) - 1) :
   (SameInvocation(hist[i].cmd, hist[i + 1].cmd) /\ hist[i].pre = Absent /\ hist[i].post # Absent)
      => (hist[i + 1].post = hist[i].post \/ (hist[i + 1].cmd.app /\ Compatible(hist[i].post, hist[i + 1].cmd.sw)))
Export == Len(hist) = Depth + 1 =>
   Serialize(ToJson([init |-> hist[1].init, cmds |-> [k \in 1..Depth |-> hist[k + 1].cmd]]) \o "\n", IOEnv.OUT_FILE,
             [format |-> "TXT", charset |-> "UTF-8", openOptions |-> <<"WRITE", "CREATE", "APPEND">>]).exitValue = 0
=============================================================================
