----------------------------- MODULE MC_DiskInd -----------------------------
(* The invariants of the allocation machine are INDUCTIVE (small geometry): the initial condition is every state
   that satisfies them - reachable or not - and one more AddFile / failed add preserves them.  Together with
   "the empty disk satisfies them" this gives the invariants for add-sequences of ANY length, which bounded
   exploration from the empty disk (MC_Disk) cannot.                                                     *)
EXTENDS Disk
CONSTANTS Lens
VARIABLES d, stepped
vars == <<d, stepped>>
FatVals == {-1} \cup (0..(NG - 1)) \cup {100 + s : s \in 1..(GB \div SB)}
Fats == [0..(NG - 1) -> FatVals]
\* directory entries carry the length their chain implies (LengthConsistent is then about the granule count only)
EntryOf(fat, k, g, lb) == LET ch == ChainFrom(fat, g, <<>>) IN
                          [id |-> k, first |-> g, lastb |-> lb, len |-> IF ChainOK(ch) THEN Implied(Len(ch), fat[ch[Len(ch)]] - 100, lb) ELSE 0]
Dirs(fat) == UNION {{[k \in 1..n |-> EntryOf(fat, k, f[k][1], f[k][2])] : f \in [1..n -> (0..(NG - 1)) \X (0..(SB - 1))]} : n \in 0..SLOTS}
Inv(s) == ChainsValid(s) /\ ChainsDisjoint(s) /\ NoOrphan(s) /\ LengthConsistent(s) /\ Capacity(s)
Init == /\ \E fat \in Fats : \E dir \in Dirs(fat) : d = [fat |-> fat, dir |-> dir]
        /\ Inv(d) /\ stepped = FALSE
Perm(S, k) == IF k = 0 THEN {<<>>} ELSE {s \in [1..k -> S] : \A i, j \in 1..k : i # j => s[i] # s[j]}
Add(L) == /\ ~stepped /\ stepped' = TRUE
          /\ \/ \E k \in Needs(L) : \E a \in Perm(Free(d), k) : CanAdd(d, L, a) /\ d' = AddFile(d, Len(d.dir) + 1, L, a)
             \/ (~MustFit(d, L) /\ d' = d)
Next == \E L \in Lens : Add(L)
Spec == Init /\ [][Next]_vars
Inductive == Inv(d)
EmptyOK == Inv(Empty)
=============================================================================
