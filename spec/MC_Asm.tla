------------------------------- MODULE MC_Asm -------------------------------
EXTENDS AsmTemplates
VARIABLES prog, phase, sizes, iter, why, out
M == INSTANCE AsmRef WITH MaxN <- 2, Templates <- Tpl, LabelNames <- {"LA", "LB"}
M3 == INSTANCE AsmRef WITH MaxN <- 3, Templates <- Tpl, LabelNames <- {"LA", "LB"}
Spec2 == M!Spec
Spec3 == M3!Init /\ [][M3!Next]_<<prog, phase, sizes, iter, why, out>>
CertOK == M!CertOK
MustOK == M!MustOK
LayoutInv == M!LayoutInv
ReachInv == M!ReachInv
Bounded == M!Bounded
Terminates == M!Terminates
=============================================================================
