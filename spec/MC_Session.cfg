SPECIFICATION Spec
CONSTANTS Pool = {1, 2, 3, 4, 5, 6, 7, 8}
 MaxLen = 4
INVARIANT Deterministic
INVARIANT MemoSound
INVARIANT Export
CHECK_DEADLOCK FALSE
