--------------------------- MODULE MC_SizingPrefix ---------------------------
(* C18 on the sizing algorithm itself: appending one statement never changes the sizes the loop chose for the
   statements already there.  Evaluated for every program of <= MaxN items and every appended item.        *)
EXTENDS AsmSizing, Json, IOUtils
Fillers == {0, 1, 3, 116, 117, 118, 119, 120, 121, 122, 123, 124, 125, 126, 127, 128}
MaxN == atoi(IOEnv.MAXN)
Fix(n) == {[k |-> "fix", sz |-> f, tgt |-> 0, base |-> 0, mx |-> f] : f \in Fillers}
Pcr(n) == [k : {"pcr"}, sz : {0}, tgt : 1..n, base : {2, 3}, mx : {0}]
Progs == UNION {{p \in [1..n -> Fix(n) \cup Pcr(n)] : \E i \in 1..n : p[i].k = "pcr"} : n \in 1..MaxN}
RECURSIVE Run(_, _, _)
Run(prog, st, fuel) == IF st.phase = "done" \/ fuel = 0 THEN st ELSE Run(prog, Step(prog, st), fuel - 1)
Final(p) == Run(p, Init0(p), 300).size
NP == atoi(IOEnv.NPARTS)
PART == atoi(IOEnv.PART)
Mine == {p \in Progs : (p[1].sz + p[1].tgt * 5 + p[Len(p)].sz * 3 + p[Len(p)].tgt + Len(p)) % NP = PART}
Bad == {<<p, x>> \in Mine \X (Pcr(MaxN + 1) \cup {[k |-> "fix", sz |-> 5, tgt |-> 0, base |-> 0, mx |-> 5]}) :
          (x.k = "pcr" => x.tgt <= Len(p) + 1) /\ SubSeq(Final(Append(p, x)), 1, Len(p)) # Final(p)}
VARIABLE x
Init == x = 0 /\ ndJsonSerialize(IOEnv.OUT_FILE, <<[progs |-> Cardinality(Mine), bad |-> Cardinality(Bad), example |-> IF Bad = {} THEN <<>> ELSE <<CHOOSE b \in Bad : TRUE>>]>>)
Next == UNCHANGED x
Spec == Init /\ [][Next]_x
=============================================================================
