----------------------------- MODULE Tr_Sizing -----------------------------
(* Trace validation of the real sizing loop: the hook events logged by cocoasm (COCOASM_VERIF=1) are
   checked, event by event, against AsmSizing!Step.  One trace per record:
   t = [id, prog (items), events : Seq([ev, i, tgt, min, max, fwd, forced, fixed, size, progress, sizes, maxs, fixedv]), final : Seq(Nat)] *)
EXTENDS AsmSizing, Json, IOUtils
Batch == ndJsonDeserialize(IOEnv.TRACE_FILE)
Fail(acc, why) == [acc EXCEPT !.ok = FALSE, !.why = why]
StepEv(prog, acc, ev) ==
  IF ~acc.ok THEN acc ELSE
  LET st == acc.st
      a2 == [acc EXCEPT !.at = @ + 1] IN
  CASE ev.ev = "Translated" ->
         IF acc.at # 0 THEN Fail(a2, "translated-not-first")
         ELSE IF ev.sizes # st.size THEN Fail(a2, "init-sizes")
         ELSE IF ev.maxs # st.maxsz THEN Fail(a2, "init-maxs")
         ELSE IF ev.fixedv # st.fixed THEN Fail(a2, "init-fixed") ELSE a2
    [] ev.ev = "SizeDecide" ->
         IF NextKind(st) # "decide" THEN Fail(a2, "unexpected-decide")
         ELSE LET i == NextIndex(st)
                  forced == st.phase = "force"
                  e == Est(prog, st, i, forced)
                  s2 == Step(prog, st)
              IN IF ev.i + 1 # i THEN Fail(a2, "decide-order")
                 ELSE IF ev.forced # e.f16 THEN Fail(a2, "decide-forced")
                 ELSE IF ev.tgt + 1 # prog[i].tgt THEN Fail(a2, "decide-target")
                 ELSE IF ev.fwd # e.fwd THEN Fail(a2, "decide-direction")
                 ELSE IF ev.min # e.mn \/ ev.max # e.mx THEN Fail(a2, "decide-estimates")
                 ELSE IF ev.fixed # s2.fixed[i] \/ ev.size # s2.size[i] THEN Fail(a2, "decide-result")
                 ELSE [a2 EXCEPT !.st = s2]
    [] ev.ev = "Sweep" ->
         IF NextKind(st) # "endsweep" THEN Fail(a2, "unexpected-sweep-end")
         ELSE IF ev.progress # st.progress THEN Fail(a2, "sweep-progress")
         ELSE IF ev.sizes # st.size \/ ev.fixedv # st.fixed THEN Fail(a2, "sweep-state")
         ELSE [a2 EXCEPT !.st = Step(prog, st)]
    [] OTHER -> Fail(a2, "unknown-event")
\* after the last event the spec must be done (running its remaining silent step if the loop was never entered)
Finish(prog, acc, final) ==
  IF ~acc.ok THEN acc ELSE
  LET st == IF NextKind(acc.st) = "endsweep" /\ acc.st.sweeps = 0 THEN Step(prog, acc.st) ELSE acc.st IN
  IF st.phase # "done" THEN Fail(acc, "not-done")
  ELSE IF final # st.size THEN Fail(acc, "final-sizes")
  ELSE IF ~WidthSafeSt(prog, st) THEN Fail(acc, "width-unsafe") ELSE acc
Judge(t) == LET f == FoldLeft(LAMBDA a, e : StepEv(t.prog, a, e), [st |-> Init0(t.prog), ok |-> TRUE, why |-> "", at |-> 0], t.events)
                r == IF t.partial THEN f ELSE Finish(t.prog, f, t.final)        \* partial: a prefix of the events of a run that was cut off
            IN [id |-> t.id, ok |-> r.ok, why |-> r.why, at |-> r.at]
VARIABLE x
Init == x = 0 /\ ndJsonSerialize(IOEnv.OUT_FILE, [k \in DOMAIN Batch |-> Judge(Batch[k])])
Next == UNCHANGED x
Spec == Init /\ [][Next]_x
=============================================================================
