------------------------------- MODULE Session -------------------------------
(* The assembler across assemblies: output is a function of the source text (C17), and the relations that two
   outputs must satisfy when the sources are related by a relocation, a renaming, a reformatting, an appended
   suffix (C18) or an INCLUDE expansion (C19).
   out = [outcome, image, addrs (listing address per statement), bytes (per statement), symtab (Seq([s, v])), origin] *)
EXTENDS Integers, Sequences, FiniteSets, SequencesExt, TLC

\* ---- C17: the memo machine.  memo : source id -> output (history variable)
Assemble(memo, src, out) == IF src \in DOMAIN memo THEN (IF memo[src] = out THEN [ok |-> TRUE, memo |-> memo] ELSE [ok |-> FALSE, memo |-> memo])
                            ELSE [ok |-> TRUE, memo |-> [s \in DOMAIN memo \cup {src} |-> IF s = src THEN out ELSE memo[s]]]

\* ---- C18 relations
SymVal(o, s) == LET ks == {k \in DOMAIN o.symtab : o.symtab[k].s = s} IN IF ks = {} THEN -1 ELSE o.symtab[CHOOSE k \in ks : TRUE].v
SameOutput(a, b) == a.outcome = b.outcome /\ (a.outcome = "ok" => a.image = b.image /\ a.addrs = b.addrs /\ a.bytes = b.bytes /\ a.symtab = b.symtab /\ a.origin = b.origin)
\* operand field of an encoding shifted by D: everything before the last two bytes equal, the last two differ by D mod 65536
ShiftedBy(x, y, D) == Len(x) = Len(y) /\ Len(x) >= 2 /\ SubSeq(x, 1, Len(x) - 2) = SubSeq(y, 1, Len(y) - 2)
                      /\ (x[Len(x) - 1] * 256 + x[Len(x)] + D) % 65536 = y[Len(y) - 1] * 256 + y[Len(y)]
\* b is a relocated by D: absref[k] says statement k names one of the program's own labels absolutely (16-bit field);
\* reloc[k] says statement k lies after the ORG (its address moves); labels / equs: which symbols are addresses
Relocated(a, b, D, absref, moved, labels) ==
  /\ a.outcome = b.outcome
  /\ a.outcome = "ok" =>
       /\ Len(a.bytes) = Len(b.bytes)
       /\ \A k \in DOMAIN a.bytes : IF absref[k] THEN ShiftedBy(a.bytes[k], b.bytes[k], D) ELSE a.bytes[k] = b.bytes[k]
       /\ \A k \in DOMAIN a.addrs : b.addrs[k] = (IF moved[k] THEN a.addrs[k] + D ELSE a.addrs[k])
       /\ \A k \in DOMAIN a.symtab : b.symtab[k].s = a.symtab[k].s /\ b.symtab[k].v = (IF a.symtab[k].s \in labels THEN a.symtab[k].v + D ELSE a.symtab[k].v)
\* b is a with labels renamed by the bijection ren (Seq([from, to]))
RenOf(ren, s) == LET ks == {k \in DOMAIN ren : ren[k].from = s} IN IF ks = {} THEN s ELSE ren[CHOOSE k \in ks : TRUE].to
Renamed(a, b, ren) == /\ a.outcome = b.outcome
                      /\ a.outcome = "ok" => /\ a.image = b.image /\ a.addrs = b.addrs /\ a.bytes = b.bytes /\ a.origin = b.origin
                                             /\ Len(a.symtab) = Len(b.symtab)
                                             /\ \A k \in DOMAIN a.symtab : b.symtab[k].s = RenOf(ren, a.symtab[k].s) /\ b.symtab[k].v = a.symtab[k].v
\* b is a with n statements appended: nothing about the first statements changes
PrefixStable(a, b) == (a.outcome = "ok" /\ b.outcome = "ok") =>
                         /\ Len(b.bytes) >= Len(a.bytes)
                         /\ SubSeq(b.bytes, 1, Len(a.bytes)) = a.bytes /\ SubSeq(b.addrs, 1, Len(a.addrs)) = a.addrs
                         /\ IsPrefix(a.image, b.image)
                         /\ \A k \in DOMAIN a.symtab : SymVal(b, a.symtab[k].s) = a.symtab[k].v
\* ---- C19: the including program and the spliced program assemble to the same thing
IncludeEquiv(a, b) == a.outcome = b.outcome /\ (a.outcome = "ok" => a.image = b.image /\ a.addrs = b.addrs /\ a.bytes = b.bytes /\ a.origin = b.origin
                                                                    /\ {<<a.symtab[k].s, a.symtab[k].v>> : k \in DOMAIN a.symtab} = {<<b.symtab[k].s, b.symtab[k].v>> : k \in DOMAIN b.symtab})
=============================================================================
