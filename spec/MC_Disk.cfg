SPECIFICATION Spec
CONSTANTS NG = 68
 GB = 2304
 SB = 256
 SLOTS = 72
 Lens = {0, 1, 255, 256, 257, 2303, 2304, 2305, 4607, 4608, 4609, 20000, 65545}
 Order <- DefaultOrder
 AnyAlloc = FALSE
 MaxAdds = 3
INVARIANT Valid
INVARIANT Disjoint
INVARIANT Orphans
INVARIANT Lengths
INVARIANT Cap
INVARIANT FitsIfRoom
PROPERTY OldFilesStable
CHECK_DEADLOCK FALSE
