SPECIFICATION Spec
CONSTANTS Depth = 2
 Cap = 3
INVARIANT PropInv
INVARIANT Export
CHECK_DEADLOCK FALSE
