SPECIFICATION Spec
CONSTANTS Depth = 3
 Cap = 3
INVARIANT PropInv
INVARIANT NeverLost
CHECK_DEADLOCK FALSE
