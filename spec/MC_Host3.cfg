SPECIFICATION Spec
CONSTANTS Depth = 3
 Cap = 3
INVARIANT PropInv
INVARIANT NeverLost
INVARIANT SamePathTwice
CHECK_DEADLOCK FALSE
