----------------------------- MODULE MC_Session -----------------------------
(* All assembly orders of length <= MaxLen over a pool of source texts, against a deterministic assembler model:
   the memo machine accepts every history of a deterministic function and rejects any history in which some source
   is ever given two different outputs (the "Flaky" variant, used as a sanity gate for the trace judge).   *)
EXTENDS Session, Json, IOUtils
CONSTANTS Pool, MaxLen
VARIABLES hist, memo, ok
vars == <<hist, memo, ok>>
Det(s) == [outcome |-> IF s % 2 = 0 THEN "ok" ELSE "translation", v |-> s * 7]        \* a deterministic "assembler"
Init == hist = <<>> /\ memo = <<>> /\ ok = TRUE
Run(s) == /\ Len(hist) < MaxLen
          /\ LET r == Assemble(memo, s, Det(s)) IN memo' = r.memo /\ ok' = (ok /\ r.ok)
          /\ hist' = Append(hist, s)
Next == \E s \in Pool : Run(s)
Spec == Init /\ [][Next]_vars
Deterministic == ok
MemoSound == \A s \in DOMAIN memo : memo[s] = Det(s)
Export == Len(hist) = MaxLen => Serialize(ToJson(hist) \o "\n", IOEnv.OUT_FILE, [format |-> "TXT", charset |-> "UTF-8", openOptions |-> <<"WRITE", "CREATE", "APPEND">>]).exitValue = 0
=============================================================================
