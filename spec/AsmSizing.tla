----------------------------- MODULE AsmSizing -----------------------------
(* The implementation's 8/16-bit decision for label,PCR operands (program.py translate_statements /
   statement.py determine_pcr_relative_sizes), as the algorithm it is: per sweep every undecided
   statement estimates the span to its target from the current (minimum) and maximum sizes of the
   statements in between; it settles on 8 bits when both estimates fit, on 16 bits when neither does;
   a sweep that decides nothing forces the first undecided statement to 16 bits.
   Written as a step function on a state record, used three ways: model checking (MC_AsmSizing),
   replay of explored programs, and validation of the hook events logged by the real loop (Tr_Sizing).
   item = [k |-> "fix", sz, tgt |-> 0, base |-> 0, mx]  |  [k |-> "pcr", sz |-> 0, tgt, base, mx |-> 0]   (tgt: 1-based statement index;
   mx: the max_size the implementation keeps for an already sized statement - for a constant-offset indexed operand it is
   SMALLER than the size, which is why the upper estimate takes the larger of the two) *)
EXTENDS Integers, Sequences, FiniteSets, SequencesExt, TLC

Init0(prog) == [size   |-> [i \in DOMAIN prog |-> IF prog[i].k = "fix" THEN prog[i].sz ELSE prog[i].base],
                maxsz  |-> [i \in DOMAIN prog |-> IF prog[i].k = "fix" THEN prog[i].mx ELSE prog[i].base + 2],
                fixed  |-> [i \in DOMAIN prog |-> prog[i].k = "fix"],
                pc |-> 1, progress |-> FALSE, phase |-> "sweep", sweeps |-> 0]
RECURSIVE SumR(_, _, _)
SumR(f, a, b) == IF a > b THEN 0 ELSE f[a] + SumR(f, a + 1, b)
Max2(a, b) == IF a > b THEN a ELSE b
AllFixed(st) == \A i \in DOMAIN st.fixed : st.fixed[i]
FirstUnfixedFrom(st, from) == LET ks == {i \in DOMAIN st.fixed : i >= from /\ ~st.fixed[i]} IN
                              IF ks = {} THEN 0 ELSE CHOOSE i \in ks : \A j \in ks : i <= j
\* the constant written with the label (label+c,PCR / label-c,PCR: c signed; 0 = a plain label; items without the field are plain)
CO(prog, i) == IF "c" \in DOMAIN prog[i] THEN prog[i].c ELSE 0
\* the estimates the implementation computes for statement i.  For label+-c the displacement is the span to the label shifted by c: [lowest, highest] bounds it
\* (forward spans are over-estimated by the statement's own bytes, which the lower bound takes off again); inside -128..127 -> 8 bits (reported as 0 / 0), wholly
\* outside -> 16 bits at once (reported like a forced decision), otherwise undecided (0 / 65535) until the sweep that forces it
Est(prog, st, i, forced) ==
  LET t == prog[i].tgt
      fwd == ~(t < i)
      lo == IF fwd THEN i ELSE t
      hi == IF fwd THEN t - 1 ELSE i - 1
      own == IF fwd THEN 2 ELSE st.size[i] + 1
      up == [x \in DOMAIN st.size |-> Max2(st.maxsz[x], st.size[x])]
      mn0 == SumR(st.size, lo, hi) + own
      mx0 == SumR(up, lo, hi) + own
      c == CO(prog, i)
      lowest == IF t = i THEN c - st.size[i] - 1 ELSE IF fwd THEN mn0 - 2 - st.size[i] + c ELSE c - mx0       \* (t = i: the statement's own label - the span is the statement itself)
      highest == IF t = i THEN c - st.size[i] - 1 ELSE IF fwd THEN mx0 + c ELSE c - mn0
      fits == -128 <= lowest /\ highest <= 127
      never == highest < -128 \/ lowest > 127
  IN [fwd |-> fwd, lim |-> IF fwd THEN 127 ELSE 128,
      f16 |-> forced \/ (c # 0 /\ ~fits /\ never),
      mn |-> IF forced THEN 65535 ELSE IF c = 0 THEN mn0 ELSE IF fits THEN 0 ELSE IF never THEN 65535 ELSE 0,
      mx |-> IF forced THEN 65535 ELSE IF c = 0 THEN mx0 ELSE IF fits THEN 0 ELSE 65535]
\* one call of determine_pcr_relative_sizes on statement i
Decide(prog, st, i, forced) ==
  LET e == Est(prog, st, i, forced) IN
  IF e.mn <= e.lim /\ e.mx <= e.lim
  THEN [st EXCEPT !.size[i] = @ + 1, !.maxsz[i] = st.size[i] + 1, !.fixed[i] = TRUE]
  ELSE IF e.mn > e.lim /\ e.mx > e.lim
  THEN [st EXCEPT !.size[i] = @ + 2, !.maxsz[i] = st.size[i] + 2, !.fixed[i] = TRUE]
  ELSE st
\* the loop: what happens next is a function of the state
NextKind(st) == IF st.phase = "done" THEN "none"
                ELSE IF st.phase = "force" THEN "decide"
                ELSE IF FirstUnfixedFrom(st, st.pc) # 0 THEN "decide" ELSE "endsweep"
NextIndex(st) == IF st.phase = "force" THEN FirstUnfixedFrom(st, 1) ELSE FirstUnfixedFrom(st, st.pc)
Step(prog, st) ==
  CASE NextKind(st) = "decide" ->
         LET i == NextIndex(st)
             forced == st.phase = "force"
             s2 == Decide(prog, st, i, forced)
         IN IF forced THEN [s2 EXCEPT !.phase = IF AllFixed(s2) THEN "done" ELSE "sweep", !.pc = 1, !.progress = FALSE]
            ELSE [s2 EXCEPT !.pc = i + 1, !.progress = st.progress \/ s2.fixed[i]]
    [] NextKind(st) = "endsweep" ->
         IF st.sweeps = 0 /\ AllFixed(st) /\ st.pc = 1 THEN [st EXCEPT !.phase = "done"]      \* loop body never entered
         ELSE IF ~st.progress THEN [st EXCEPT !.phase = "force", !.sweeps = @ + 1]
         ELSE [st EXCEPT !.phase = IF AllFixed(st) THEN "done" ELSE "sweep", !.pc = 1, !.progress = FALSE, !.sweeps = @ + 1]
    [] OTHER -> st
\* ---- properties of a state
Addr(st, i) == SumR(st.size, 1, i - 1)
Disp(prog, st, i) == Addr(st, prog[i].tgt) - (Addr(st, i) + st.size[i])
WidthSafeSt(prog, st) == st.phase = "done" =>
   \A i \in DOMAIN prog : (prog[i].k = "pcr" /\ st.size[i] = prog[i].base + 1) => (Disp(prog, st, i) + CO(prog, i)) \in -128..127
DecidedSt(prog, st) == st.phase = "done" => \A i \in DOMAIN prog : st.fixed[i] /\ (prog[i].k = "pcr" => st.size[i] \in {prog[i].base + 1, prog[i].base + 2})
NoLivelockSt(prog, st) == st.sweeps <= Len(prog) + 1
=============================================================================
