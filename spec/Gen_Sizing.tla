----------------------------- MODULE Gen_Sizing -----------------------------
(* Export of the sizing programs explored by MC_AsmSizing, with the sizes the specification's loop ends with *)
EXTENDS AsmSizing, Json, IOUtils
Fillers == IF IOEnv.TIER = "thorough" THEN {0, 1, 119, 120, 121, 122, 123, 124, 125, 126, 127, 128, 129, 130} ELSE {0, 1, 119, 120, 121, 122, 123, 124, 125, 126, 127, 128, 129}
MaxN == IF IOEnv.TIER = "thorough" THEN 4 ELSE 3
Items(n) == {[k |-> "fix", sz |-> f, tgt |-> 0, base |-> 0, mx |-> f] : f \in Fillers} \cup {[k |-> "fix", sz |-> 3, tgt |-> 0, base |-> 0, mx |-> 2]}
            \cup [k : {"pcr"}, sz : {0}, tgt : 1..n, base : {2, 3}, mx : {0}]
NP == atoi(IOEnv.NPARTS)
PART == atoi(IOEnv.PART)
Progs == UNION {{p \in [1..n -> Items(n)] : (\E i \in 1..n : p[i].k = "pcr") /\ (p[1].sz + p[1].tgt * 7 + p[n].sz * 3 + p[n].base + p[n].mx) % NP = PART} : n \in 1..MaxN}
RECURSIVE Run(_, _, _)
Run(prog, st, fuel) == IF st.phase = "done" \/ fuel = 0 THEN st ELSE Run(prog, Step(prog, st), fuel - 1)
Out == SetToSeq({[prog |-> p, final |-> Run(p, Init0(p), 200).size] : p \in Progs})
VARIABLE x
Init == x = 0 /\ ndJsonSerialize(IOEnv.OUT_FILE, Out)
Next == UNCHANGED x
Spec == Init /\ [][Next]_x
=============================================================================
