------------------------------ MODULE Tr_Host ------------------------------
(* Trace validation of command-line histories on one target path.  Each event carries the command, whether the
   target's bytes changed, exit status / message, the new content (sparse) and the VirtualFile hook events.  The
   judge classifies what was WRITTEN with the specification's own readers (Tape!ParseTape, DiskBytes!ReadAll) - never
   by the tool's sniffing - maps the files found to the catalogue of files the harness created, re-anchors on the
   observed content, and evaluates Host!Allowed and the separately phrased properties at every step.        *)
EXTENDS Host, Json, IOUtils
T == INSTANCE Tape WITH BLK <- 255
D == INSTANCE DiskBytes WITH NG <- 68, GB <- 2304, SB <- 256, SLOTS <- 72
DK == INSTANCE Disk WITH NG <- 68, GB <- 2304, SB <- 256, SLOTS <- 72
Batch == ndJsonDeserialize(IOEnv.TRACE_FILE)

Up(c) == IF c \in 97..122 THEN c - 32 ELSE c
UpS(s) == [k \in DOMAIN s |-> Up(s[k])]
RStrip(s) == LET ks == {k \in DOMAIN s : s[k] \notin {32, 0}} IN IF ks = {} THEN <<>> ELSE SubSeq(s, 1, CHOOSE k \in ks : \A j \in ks : j <= k)
Name8(n) == LET m == RStrip(n) IN UpS(IF Len(m) > 8 THEN SubSeq(m, 1, 8) ELSE m)
\* a file found in an image is the catalogue file f: same name (8 chars, case-blind), type, data type, data; addresses for machine language
Is(x, f) == Name8(x.name) = Name8(f.name) /\ x.type = f.type /\ x.dtype = f.dtype /\ x.data = f.data /\ (f.type = 2 => x.a1 = f.a1 /\ x.a2 = f.a2)
IdOf(cat, x) == LET ks == {k \in DOMAIN cat : Is(x, cat[k].f)} IN IF ks = {} THEN 0 ELSE cat[CHOOSE k \in ks : TRUE].id
Ids(cat, fs) == [j \in DOMAIN fs |-> IdOf(cat, fs[j])]
FileOf(cat, id) == LET ks == {k \in DOMAIN cat : cat[k].id = id} IN cat[CHOOSE k \in ks : TRUE].f
Known(cat, id) == \E k \in DOMAIN cat : cat[k].id = id
StreamLen(f) == IF f.type = 2 THEN Len(f.data) + 10 ELSE IF f.dtype = 255 THEN Len(f.data) ELSE Len(f.data) + 3
RECURSIVE Grans(_, _, _)
Grans(cat, ids, j) == IF j > Len(ids) THEN 0 ELSE (IF Known(cat, ids[j]) THEN DK!NeedMax(StreamLen(FileOf(cat, ids[j]))) ELSE 1) + Grans(cat, ids, j + 1)
FitsOn(cat, ids) == Len(ids) <= 72 /\ Grans(cat, ids, 1) <= 68
\* ... and with the MINIMUM number of granules per file (C15 permits either count when a stream is an exact multiple of a granule): between the two the
\* property leaves it open whether the files fit
RECURSIVE GransMin(_, _, _)
GransMin(cat, ids, j) == IF j > Len(ids) THEN 0 ELSE (IF Known(cat, ids[j]) THEN DK!NeedMin(StreamLen(FileOf(cat, ids[j]))) ELSE 1) + GransMin(cat, ids, j + 1)
FitsOnMin(cat, ids) == Len(ids) <= 72 /\ GransMin(cat, ids, 1) <= 68
GrFun(grans) == [g \in {grans[i].g : i \in DOMAIN grans} |-> grans[CHOOSE i \in DOMAIN grans : grans[i].g = g].b]
\* what is at the path after the step, read with the specification's readers according to what was asked to be written
Classify(cat, cmd, p) ==
  IF ~p.exists THEN Absent
  ELSE IF p.len = 0 THEN C("empty", FALSE, <<>>)
  ELSE IF cmd.sw = "cas" THEN (LET r == T!ParseTape(p.tape) IN IF r.ok /\ r.files # <<>> THEN C("cas", p.len >= 161280, Ids(cat, r.files)) ELSE C("junk", FALSE, <<>>))
  ELSE IF cmd.sw = "dsk" THEN
       (IF p.len # 161280 \/ ~D!FsckOK(p.fat, p.dir) THEN C("junk", FALSE, <<>>)
        ELSE LET r == D!ReadAll(p.fat, p.dir, GrFun(p.grans)) IN IF r.ok THEN C("dsk", FALSE, Ids(cat, r.files)) ELSE C("junk", FALSE, <<>>))
  ELSE (LET want == FlattenSeq([j \in DOMAIN cmd.new |-> IF Known(cat, cmd.new[j]) THEN FileOf(cat, cmd.new[j]).data ELSE <<>>]) IN
        IF p.raw = want THEN C("raw", FALSE, cmd.new) ELSE C("junk", FALSE, <<>>))
SniffOK(pre, hooks) == \A i \in DOMAIN hooks : hooks[i].ev = "Open" =>
      /\ hooks[i].exists = (pre.kind # "absent")
      /\ (pre.kind = "cas" => hooks[i].sniffed = "CASSETTE") /\ (pre.kind = "dsk" => hooks[i].sniffed = "DISK")
WroteOK(pre, cmd, cat, hooks) == \A i \in DOMAIN hooks : (hooks[i].ev = "Save" /\ hooks[i].wrote) =>
      ((\E post \in Allowed(pre, cmd, LAMBDA ids : FitsOn(cat, ids)) \cup Allowed(pre, cmd, LAMBDA ids : FitsOnMin(cat, ids)) : post # pre) \/ (cmd.app /\ Compatible(pre, cmd.sw)))   \* (an append of nothing rewrites the same content)
\* ONE invocation that names the same path under two switches (cmd.sw2 # ""): the tool performs two saves one after the other, so the required content is the
\* composition of the table with itself - in either order, the order of the saves inside one invocation being the tool's business.  What the first save
\* created EXISTS when the second one looks at the path: it may only be appended to, by a save of its own kind.
AllowedBoth(cat, pre, cmd) == Allowed(pre, cmd, LAMBDA ids : FitsOn(cat, ids)) \cup Allowed(pre, cmd, LAMBDA ids : FitsOnMin(cat, ids))
AllowedSeq(cat, pre, c1, c2) == UNION {AllowedBoth(cat, p1, c2) : p1 \in AllowedBoth(cat, pre, c1)}
ClassifyAny(cat, cmd, cmd2, p) ==
  LET first == IF p.len = 161280 /\ "dsk" \in {cmd.sw, cmd2.sw} THEN (IF cmd.sw = "dsk" THEN cmd ELSE cmd2) ELSE (IF cmd.sw = "dsk" THEN cmd2 ELSE cmd)
      second == IF first = cmd THEN cmd2 ELSE cmd
      c1 == Classify(cat, first, p)
  IN IF c1.kind # "junk" THEN c1 ELSE Classify(cat, second, p)
JudgeTwo(cat, pre, e) ==
  LET cmd == e.cmd
      cmd2 == [cmd EXCEPT !.sw = cmd.sw2]
      post0 == IF e.same THEN pre ELSE ClassifyAny(cat, cmd, cmd2, e.post)
      post == [post0 EXCEPT !.big = pre.big]
      \* ... or stops after the first save, or does nothing at all (file_util ends at the first save that is refused): C10 is about what may be MODIFIED; that an
      \* append which applies does happen is judged on the single-switch invocations.  The final content alone cannot tell "the first save was skipped" from "the
      \* second save replaced what the first had just created": the Save hook events say how many saves WROTE, and the table says how many may (<<writes, content>>).
      nw == Cardinality({i \in DOMAIN e.hooks : e.hooks[i].ev = "Save" /\ e.hooks[i].wrote})
      CanWrite(p0, c, p1) == IF p1 # p0 THEN {1} ELSE IF c.app /\ Compatible(p0, c.sw) THEN {0, 1} ELSE {0}
      PairsOne(c) == UNION {{<<n, p1>> : n \in CanWrite(pre, c, p1)} : p1 \in AllowedBoth(cat, pre, c)}
      PairsSeq(c1, c2) == UNION {UNION {{<<n1 + n2, p2>> : n1 \in CanWrite(pre, c1, p1), n2 \in CanWrite(p1, c2, p2)} : p2 \in AllowedBoth(cat, p1, c2)} : p1 \in AllowedBoth(cat, pre, c1)}
      pairs == PairsSeq(cmd, cmd2) \cup PairsSeq(cmd2, cmd) \cup PairsOne(cmd) \cup PairsOne(cmd2) \cup {<<0, pre>>}
      cl == [allowed |-> IF e.hooks = <<>> THEN post \in {pr[2] : pr \in pairs} ELSE <<nw, post>> \in pairs,
             notraceback |-> ~e.tb]
  IN [post |-> post0, failed |-> SetToSeq({c \in DOMAIN cl : ~cl[c]}),
      class |-> [tool |-> cmd.tool, sw |-> cmd.sw, app |-> cmd.app, named |-> cmd.named, pre |-> pre.kind, big |-> pre.big,
                 newn |-> Len(cmd.new), srcn |-> cmd.srcn, post |-> post.kind, same |-> e.same, fits |-> FitsOn(cat, pre.files \o cmd.new)]]
JudgeOne(cat, pre, e) ==
  LET cmd == e.cmd
      F(ids) == FitsOn(cat, ids)
      Fm(ids) == FitsOnMin(cat, ids)
      post0 == IF e.same THEN pre ELSE Classify(cat, cmd, e.post)
      post == [post0 EXCEPT !.big = pre.big]          \* "big" (>= 161,280 bytes) is carried for classification only, not compared
      refused == post = pre /\ pre.kind # "absent" /\ ~(cmd.tool = "asm" /\ cmd.sw \in {"cas", "dsk"} /\ ~cmd.named) /\ cmd.sw # "list"
      \* what --list must print for an image: one entry per file it holds, in order, with its name and data length (read by the TOOL's reader: this
      \* compares the tool's reader with the specification's reader after every history)
      wantlist == [j \in DOMAIN pre.files |-> IF Known(cat, pre.files[j]) THEN [name |-> Name8(FileOf(cat, pre.files[j]).name), len |-> Len(FileOf(cat, pre.files[j]).data)]
                                                ELSE [name |-> <<>>, len |-> -1]]
      cl == [allowed |-> post \in Allowed(pre, cmd, F) \cup Allowed(pre, cmd, Fm),
             onlyappend |-> OnlyAppendModifies(pre, cmd, post),
             complete |-> CompleteImage(pre, cmd, post),
             rewritten |-> (post = pre /\ ~e.same) => (cmd.app /\ Compatible(pre, cmd.sw)),
             toldwhy |-> refused => (e.msg /\ ~e.tb),
             preserves |-> AppendPreserves(pre, cmd, post),
             happens |-> AppendHappens(pre, cmd, post, F),
             sniff |-> SniffOK(pre, e.hooks),
             wrote |-> WroteOK(pre, cmd, cat, e.hooks)
                       /\ ((~e.same /\ e.hooks # <<>>) => \E i \in DOMAIN e.hooks : e.hooks[i].ev = "Save" /\ e.hooks[i].wrote),      \* a changed target was announced by a Save event
             capacity |-> CapacityRespected(pre, cmd, post, Fm),          \* must refuse only what does not fit even with the minimum number of granules
             \* C15: every file stored takes ONE directory slot - a disk that was written holds as many entries as before plus the new files
             oneslot |-> (post # pre /\ post.kind = "dsk") => Len(post.files) = (IF pre.kind = "dsk" THEN Len(pre.files) ELSE 0) + Len(cmd.new),
             newpath |-> NewPathHoldsNew(pre, cmd, post),
             readonly |-> ReadOnly(pre, cmd, post),
             listed |-> (cmd.sw = "list" /\ pre.kind \in {"cas", "dsk"}) =>
                          (e.exit = 0 /\ Len(e.listed) = Len(wantlist) /\ \A j \in DOMAIN wantlist : Name8(e.listed[j].name) = wantlist[j].name /\ e.listed[j].len = wantlist[j].len),
             notraceback |-> ~e.tb]
  IN [post |-> post0, failed |-> SetToSeq({c \in DOMAIN cl : ~cl[c]}),
      class |-> [tool |-> cmd.tool, sw |-> cmd.sw, app |-> cmd.app, named |-> cmd.named, pre |-> pre.kind, big |-> pre.big,
                 newn |-> Len(cmd.new), srcn |-> cmd.srcn, post |-> post.kind, same |-> e.same, fits |-> F(pre.files \o cmd.new)]]
Judge1(cat, pre, e) == IF e.cmd.sw2 = "" THEN JudgeOne(cat, pre, e) ELSE JudgeTwo(cat, pre, e)
Judge(h) == [id |-> h.id, steps |-> FoldLeft(LAMBDA acc, e : LET j == Judge1(h.cat, acc.cur, e) IN
                                               [cur |-> j.post, out |-> Append(acc.out, [failed |-> j.failed, class |-> j.class, post |-> j.post])],
                                             [cur |-> h.init, out |-> <<>>], h.events).out]
VARIABLE x
Init == x = 0 /\ ndJsonSerialize(IOEnv.OUT_FILE, [k \in DOMAIN Batch |-> Judge(Batch[k])])
Next == UNCHANGED x
Spec == Init /\ [][Next]_x
=============================================================================
