SPECIFICATION Spec
CONSTANTS NG = 68
 GB = 2304
 SB = 256
 SLOTS = 72
 Lens = {6000, 2000}
 Order <- ReverseOrder
 AnyAlloc = FALSE
 MaxAdds = 12
INVARIANT Valid
INVARIANT Disjoint
INVARIANT Orphans
INVARIANT Lengths
INVARIANT Cap
INVARIANT FitsIfRoom
PROPERTY OldFilesStable
CHECK_DEADLOCK FALSE
