------------------------------ MODULE MC_M6809 ------------------------------
(* Sanity gate for the codec module: the two datasheet transcriptions (by mnemonic, by opcode)
   describe the same relation, and every acceptable encoding of every bounded instruction decodes
   back to that instruction with all bytes consumed.  One part per JVM (IOEnv.PART / NPARTS).   *)
EXTENDS M6809, Json, IOUtils
Vals == {0,1,15,16,17,127,128,129,255,256,257,4095,4096,32767,32768,65535,-1,-15,-16,-17,-127,-128,-129,-255,-256,-32767,-32768}
Tgts == {0, 2, 100, 127, 128, 129, 130, 4096, 4224, 4225, 4226, 65535}
Blank == [mn |-> "NOP", form |-> "inh", val |-> 0, force |-> "", reg |-> "X", sub |-> "zero", acc |-> "A", ind |-> FALSE, regs |-> {}, r1 |-> "D", r2 |-> "D", tgt |-> 0]
Subs == {"zero","inc1","inc2","dec1","dec2"}
Instrs(mn) ==
     {[Blank EXCEPT !.mn = mn, !.form = "inh"]}
  \cup {[Blank EXCEPT !.mn = mn, !.form = "imm", !.val = v] : v \in Vals}
  \cup {[Blank EXCEPT !.mn = mn, !.form = "mem", !.val = v, !.force = f] : v \in Vals, f \in {"", "<", ">"}}
  \cup {[Blank EXCEPT !.mn = mn, !.form = "extind", !.val = v] : v \in Vals}
  \cup {[Blank EXCEPT !.mn = mn, !.form = "idx", !.reg = r, !.sub = s, !.ind = n] : r \in IdxRegs, s \in Subs, n \in BOOLEAN}
  \cup {[Blank EXCEPT !.mn = mn, !.form = "idx", !.reg = r, !.sub = "acc", !.acc = a, !.ind = n] : r \in IdxRegs, a \in {"A","B","D"}, n \in BOOLEAN}
  \cup {[Blank EXCEPT !.mn = mn, !.form = "idx", !.reg = r, !.sub = "off", !.val = v, !.ind = n] : r \in IdxRegs, v \in Vals, n \in BOOLEAN}
  \cup {[Blank EXCEPT !.mn = mn, !.form = "pcrn", !.val = v, !.ind = n] : v \in Vals, n \in BOOLEAN}
  \cup {[Blank EXCEPT !.mn = mn, !.form = "pcrl", !.tgt = t, !.ind = n] : t \in Tgts, n \in BOOLEAN}
  \cup {[Blank EXCEPT !.mn = mn, !.form = "rel", !.tgt = t] : t \in Tgts}
  \cup (IF mn \in StackOps THEN {[Blank EXCEPT !.mn = mn, !.form = "regs", !.regs = rs] : rs \in SUBSET Regs} ELSE {})
  \cup (IF mn \in PairOps THEN {[Blank EXCEPT !.mn = mn, !.form = "pair", !.r1 = a, !.r2 = b] : a \in Regs, b \in Regs} ELSE {})
Ctxs == {[addr |-> a, dp |-> d] : a \in {0, 4096, 65520}, d \in {0, 16}}
FieldOf(mode) == CASE mode \in {"pair","stack"} -> "imm" [] mode = "rel16" -> "rel" [] OTHER -> mode
Fld(t, f) == CASE f = "inh" -> t.inh [] f = "imm" -> t.imm [] f = "dir" -> t.dir [] f = "ind" -> t.ind [] f = "ext" -> t.ext [] OTHER -> t.rel
OpBytes(page, b) == IF page = 0 THEN <<b>> ELSE <<page, b>>
Fwd == {<<mn, f>> \in Mnemonics \X {"inh","imm","dir","ind","ext","rel"} :
          LET op == Fld(OpTable[mn], f) IN
          op # NA /\ LET page == IF Len(op) = 2 THEN op[1] ELSE 0  b == op[Len(op)]  e == DecodeMap[page][b]
                     IN ~(mn \in e.mns /\ FieldOf(e.mode) = f)}
Bwd == {<<page, b>> \in {0,16,17} \X Byte :
          LET e == DecodeMap[page][b] IN e.mode # "none" /\ \E mn \in e.mns : mn \notin Mnemonics \/ Fld(OpTable[mn], FieldOf(e.mode)) # OpBytes(page, b)}
NCells == Cardinality({<<mn, f>> \in Mnemonics \X {"inh","imm","dir","ind","ext","rel"} : Fld(OpTable[mn], f) # NA})
NMap == Cardinality({<<page, b>> \in {0,16,17} \X Byte : DecodeMap[page][b].mode # "none"})
NP == atoi(IOEnv.NPARTS)
PART == atoi(IOEnv.PART)
MyMns == {OpRows[k][1] : k \in {j \in DOMAIN OpRows : j % NP = PART}}
BadRT(mn) == {<<i, c>> \in Instrs(mn) \X Ctxs : \E e \in Encodings(i, c) : ~Same(i, c, e)}
Pairs(mn) == Cardinality({<<i, c>> \in Instrs(mn) \X Ctxs : Encodings(i, c) # {}})
\* decoding is total: every byte string of length <= 5 starting with any opcode either decodes with a definite length or is malformed
DecTotal == \A p \in {0, 16, 17} : \A b \in Byte : \A pb \in {0, 4, 132, 136, 137, 140, 141, 143, 159, 255} :
              LET bs == (IF p = 0 THEN <<b>> ELSE <<p, b>>) \o <<pb, 1, 2>>  d == Decode(bs) IN d.ok => d.len \in 1..Len(bs) /\ d.mns # {}
RECURSIVE SumC(_)
SumC(S) == IF S = {} THEN 0 ELSE LET x == CHOOSE x \in S : TRUE IN Pairs(x) + SumC(S \ {x})
Report == [mnemonics |-> Cardinality(Mnemonics), cells |-> NCells, mapcells |-> NMap, fwd |-> Cardinality(Fwd), bwd |-> Cardinality(Bwd),
           badrt |-> Cardinality(UNION {BadRT(mn) : mn \in MyMns}), pairs |-> SumC(MyMns), dectotal |-> DecTotal]
VARIABLE x
Init == x = 0 /\ ndJsonSerialize(IOEnv.OUT_FILE, <<Report>>)
Next == UNCHANGED x
Spec == Init /\ [][Next]_x
=============================================================================
