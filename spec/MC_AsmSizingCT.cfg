SPECIFICATION Spec
CONSTANTS MaxN = 3
 Fillers = {0, 1, 70, 72, 118, 120, 122, 124, 126, 127, 128, 130}
 Consts <- ConstsT
INVARIANT WidthSafe
INVARIANT Decided
INVARIANT NoLivelock
CHECK_DEADLOCK FALSE
