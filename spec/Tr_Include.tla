----------------------------- MODULE Tr_Include -----------------------------
(* Code -> spec for C19: one record per file set the harness materialised,
     t = [id, root, files (record: name -> Seq(Item)), exit, tb, hasbin, bin (bytes of the saved image), msg]
   Statement v of the model is the source line ` FCB v` (one byte v), an include item is ` INCLUDE <name>.asm`.
   The judge evaluates the specification's Splice on the SAME file set and demands: the expansion is rejected
   (cycle / missing file) => the tool ends with a diagnostic, non-zero exit, no traceback and no image; otherwise
   the saved image is exactly the spliced statement sequence.                                               *)
EXTENDS Include, Json, IOUtils
Batch == ndJsonDeserialize(IOEnv.TRACE_FILE)
Judge(t) ==
  LET r == Splice(t.files, t.root, {})
      cl == [notraceback |-> ~t.tb,
             rejected |-> r.bad => (t.exit # 0 /\ ~t.hasbin /\ t.msg),
             accepted |-> ~r.bad => t.exit = 0,
             spliced |-> (~r.bad /\ t.exit = 0) => (IF r.s = <<>> THEN t.bin = <<>> ELSE t.hasbin /\ t.bin = r.s)]
  IN [id |-> t.id, failed |-> SetToSeq({c \in DOMAIN cl : ~cl[c]}), bad |-> r.bad, n |-> Len(r.s)]
TInit == /\ files = [n \in Names |-> <<>>] /\ stack = <<>> /\ out = <<>> /\ phase = "judge"
         /\ ndJsonSerialize(IOEnv.OUT_FILE, [k \in DOMAIN Batch |-> Judge(Batch[k])])
TNext == UNCHANGED vars
TSpec == TInit /\ [][TNext]_vars
=============================================================================
