------------------------------- MODULE Tr_Pair -------------------------------
(* C18 / C19 trace validation: two recorded assemblies of related sources and the relation they must satisfy.
   t = [id, kind ("shift" | "rename" | "same" | "suffix" | "include"), a, b, D, absref, moved, labels, ren]   *)
EXTENDS Session, Json, IOUtils
Batch == ndJsonDeserialize(IOEnv.TRACE_FILE)
Judge(t) ==
  LET ok == CASE t.kind = "shift"  -> Relocated(t.a, t.b, t.D, t.absref, t.moved, {t.labels[k] : k \in DOMAIN t.labels})
              [] t.kind = "rename" -> Renamed(t.a, t.b, t.ren)
              [] t.kind = "same"   -> SameOutput(t.a, t.b)
              [] t.kind = "suffix" -> PrefixStable(t.a, t.b)
              [] t.kind = "include" -> IncludeEquiv(t.a, t.b)
              [] t.kind = "include-reject" -> t.a.outcome \in {"parse", "translation"}
              [] OTHER -> FALSE
      both == t.a.outcome = "ok" /\ t.b.outcome = "ok"
      \* where it fails (for attribution): first statement whose bytes / address break the relation
      badk == IF ok \/ ~both \/ Len(t.a.bytes) > Len(t.b.bytes) THEN 0 ELSE
              LET ks == {k \in DOMAIN t.a.bytes :
                           CASE t.kind = "shift" -> ~(IF t.absref[k] THEN ShiftedBy(t.a.bytes[k], t.b.bytes[k], t.D) ELSE t.a.bytes[k] = t.b.bytes[k])
                                                    \/ t.b.addrs[k] # (IF t.moved[k] THEN t.a.addrs[k] + t.D ELSE t.a.addrs[k])
                             [] OTHER -> t.a.bytes[k] # t.b.bytes[k] \/ t.a.addrs[k] # t.b.addrs[k]}
              IN IF ks = {} THEN 0 ELSE CHOOSE k \in ks : \A j \in ks : k <= j
  IN [id |-> t.id, ok |-> ok, badk |-> badk, outcomes |-> <<t.a.outcome, t.b.outcome>>]
VARIABLE x
Init == x = 0 /\ ndJsonSerialize(IOEnv.OUT_FILE, [k \in DOMAIN Batch |-> Judge(Batch[k])])
Next == UNCHANGED x
Spec == Init /\ [][Next]_x
=============================================================================
