------------------------------ MODULE DiskBytes ------------------------------
(* Byte-level Disk BASIC reader over a sparse image: fat (68 allocation entries), dir (72 x 32 directory bytes),
   gr (granule number -> 2304 bytes; absent = never written, all $FF).  Fsck = the consistency check of C08,
   ReadAll = the files the image holds, read the way Disk BASIC does: follow each chain through the allocation
   table, concatenate the granules in chain order, take the length from (granules, sectors, bytes in last sector),
   parse preamble / postamble out of the STREAM (never from what physically follows on the disk).          *)
EXTENDS Integers, Sequences, FiniteSets, SequencesExt, TLC
CONSTANTS NG, GB, SB, SLOTS
Blank == [k \in 1..GB |-> 255]
GranOf(gr, g) == IF g \in DOMAIN gr THEN gr[g] ELSE Blank
DirEnt(dir, k) == LET o == 32 * k IN
   [name |-> SubSeq(dir, o + 1, o + 8), ext |-> SubSeq(dir, o + 9, o + 11), type |-> dir[o + 12], dtype |-> dir[o + 13],
    fg |-> dir[o + 14], lastb |-> dir[o + 15] * 256 + dir[o + 16]]
UsedSlots(dir) == {k \in 0..(SLOTS - 1) : dir[32 * k + 1] \notin {0, 255}}
RECURSIVE ByteChain(_, _, _)
ByteChain(fat, g, seen) == IF g \notin 0..(NG - 1) \/ g \in Range(seen) THEN Append(seen, -1)
                           ELSE IF fat[g + 1] \in 192..255 THEN Append(seen, g)
                           ELSE IF fat[g + 1] \in 0..(NG - 1) THEN ByteChain(fat, fat[g + 1], Append(seen, g))
                           ELSE Append(Append(seen, g), -1)
ChainOK(ch) == Len(ch) > 0 /\ ch[Len(ch)] # -1
ImpliedLen(fat, ch, lastb) == LET s == fat[ch[Len(ch)] + 1] - 192 IN (Len(ch) - 1) * GB + (IF s = 0 THEN 0 ELSE (s - 1) * SB) + lastb
RStrip(s) == LET ks == {k \in DOMAIN s : s[k] # 32} IN IF ks = {} THEN <<>> ELSE SubSeq(s, 1, CHOOSE k \in ks : \A j \in ks : j <= k)
ReadFile(fat, dir, gr, k) ==
  LET e == DirEnt(dir, k)
      ch == ByteChain(fat, e.fg, <<>>) IN
  IF ~ChainOK(ch) THEN [ok |-> FALSE, why |-> "chain", file |-> <<>>]
  ELSE LET L == ImpliedLen(fat, ch, e.lastb)
           all == FlattenSeq([i \in 1..Len(ch) |-> GranOf(gr, ch[i])])
       IN IF L > Len(all) \/ L < 0 THEN [ok |-> FALSE, why |-> "length", file |-> <<>>]
          ELSE LET S == SubSeq(all, 1, L)
                   base == [name |-> RStrip(e.name), ext |-> RStrip(e.ext), type |-> e.type, dtype |-> e.dtype, gap |-> 0, a1 |-> 0, a2 |-> 0, data |-> <<>>]
               IN IF e.type = 2 THEN
                     (IF L < 10 \/ S[1] # 0 THEN [ok |-> FALSE, why |-> "preamble", file |-> <<>>]
                      ELSE LET n == S[2] * 256 + S[3] IN
                           IF n + 10 # L THEN [ok |-> FALSE, why |-> "ml-length", file |-> <<>>]
                           ELSE IF SubSeq(S, 6 + n, 8 + n) # <<255, 0, 0>> THEN [ok |-> FALSE, why |-> "postamble", file |-> <<>>]
                           ELSE [ok |-> TRUE, why |-> "", file |-> <<[base EXCEPT !.a1 = S[4] * 256 + S[5], !.a2 = S[9 + n] * 256 + S[10 + n], !.data = SubSeq(S, 6, 5 + n)]>>])
                  ELSE IF e.dtype = 255 THEN [ok |-> TRUE, why |-> "", file |-> <<[base EXCEPT !.data = S]>>]
                  ELSE (IF L < 3 \/ S[1] # 255 \/ S[2] * 256 + S[3] + 3 # L THEN [ok |-> FALSE, why |-> "basic-preamble", file |-> <<>>]
                        ELSE [ok |-> TRUE, why |-> "", file |-> <<[base EXCEPT !.data = SubSeq(S, 4, L)]>>])
ReadAll(fat, dir, gr) ==
  LET slots == SetToSortSeq(UsedSlots(dir), <)
      rs == [j \in DOMAIN slots |-> ReadFile(fat, dir, gr, slots[j])]
  IN [ok |-> \A j \in DOMAIN rs : rs[j].ok, why |-> IF \A j \in DOMAIN rs : rs[j].ok THEN "" ELSE rs[CHOOSE j \in DOMAIN rs : ~rs[j].ok].why,
      files |-> FlattenSeq([j \in DOMAIN rs |-> rs[j].file])]
Fsck(fat, dir) ==
  LET used == UsedSlots(dir)
      chains == [k \in used |-> ByteChain(fat, DirEnt(dir, k).fg, <<>>)]
      allok == \A k \in used : ChainOK(chains[k]) /\ fat[chains[k][Len(chains[k])] + 1] - 192 \in 0..9
      inchain == UNION {Range(chains[k]) \ {-1} : k \in used}
  IN [chains |-> allok,
      disjoint |-> allok => \A a, b \in used : a # b => Range(chains[a]) \cap Range(chains[b]) = {},
      orphan |-> allok => {g \in 0..(NG - 1) : fat[g + 1] # 255} = inchain]
FsckOK(fat, dir) == LET f == Fsck(fat, dir) IN f.chains /\ f.disjoint /\ f.orphan
=============================================================================
