SPECIFICATION Spec
CONSTANTS MaxN = 4
 Fillers = {0, 1, 121, 122, 123, 124, 125, 126, 127, 128}
 Consts = {0}
INVARIANT WidthSafe
INVARIANT Decided
INVARIANT NoLivelock
CHECK_DEADLOCK FALSE
