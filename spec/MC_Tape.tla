------------------------------ MODULE MC_Tape ------------------------------
(* The tape writer as a state machine (one action per block / filler run, layout chosen nondeterministically per
   file) checked against the scanner: after every completed file the stream parses to exactly the files written,
   in the middle of a file it parses to those files plus an unfinished one.  BLK = 3, marker-byte alphabet.   *)
EXTENDS Tape
CONSTANT MaxData
Alpha == {0, 60, 85, 255, 65}
SeqUpTo(S, n) == UNION {[1..k -> S] : k \in 0..n}
Pool == {[name |-> nm, type |-> ty, dtype |-> 0, gap |-> 0, a1 |-> a, a2 |-> 15360, data |-> d] :
            nm \in {<<65, 85>>, <<60>>}, ty \in {0, 2}, a \in {0, 21820}, d \in SeqUpTo(Alpha, MaxData)}
Small == {[name |-> <<60>>, type |-> 2, dtype |-> 255, gap |-> 0, a1 |-> 85, a2 |-> 60, data |-> d] : d \in SeqUpTo({60, 85, 0}, 2) \cup {<<85, 60, 0, 85>>, <<1, 2, 3, 4, 5, 6, 7>>}}
Lays == {[blank |-> b, leader |-> l, gap |-> g] : b \in {0, 2}, l \in {0, 1, 3}, g \in {0, 2}}
VARIABLES tape, written, cur, lay, stage, k
vars == <<tape, written, cur, lay, stage, k>>
Init == tape = <<>> /\ written = <<>> /\ cur \in Pool /\ lay \in Lays /\ stage = "header" /\ k = 1
Header == /\ stage = "header" /\ Len(written) < 2
          /\ tape' = tape \o Fill(0, lay.blank) \o Fill(85, lay.leader) \o NameBlock(cur)
          /\ stage' = "leader" /\ UNCHANGED <<written, cur, lay, k>>
Leader == /\ stage = "leader"
          /\ tape' = tape \o Fill(0, lay.blank) \o Fill(85, lay.leader)
          /\ stage' = (IF Len(cur.data) = 0 THEN "eof" ELSE "data") /\ k' = 1 /\ UNCHANGED <<written, cur, lay>>
Data == /\ stage = "data"
        /\ tape' = tape \o Block(1, Chunks(cur.data)[k]) \o Fill(85, lay.gap)
        /\ IF k = Len(Chunks(cur.data)) THEN stage' = "eof" /\ k' = k ELSE stage' = "data" /\ k' = k + 1
        /\ UNCHANGED <<written, cur, lay>>
Eof == /\ stage = "eof"
       /\ tape' = tape \o Block(255, <<>>)
       /\ written' = Append(written, cur)
       /\ stage' = "header" /\ k' = 1
       /\ cur' \in Small /\ lay' \in {lay, [blank |-> 2, leader |-> 1, gap |-> 0]}
Next == Header \/ Leader \/ Data \/ Eof
Spec == Init /\ [][Next]_vars
Norm(f) == [f EXCEPT !.name = Pad8(f.name)]
\* C06 / C14 on the model: the stream written so far always scans to the files completed so far
RoundTrip == LET r == ParseTape(tape) IN
             IF stage = "header" THEN r.ok /\ r.files = [j \in DOMAIN written |-> Norm(written[j])]
             ELSE ~r.ok /\ r.why = "eof-missing" /\ r.files = [j \in DOMAIN written |-> Norm(written[j])]
\* chunking: payloads are 1..BLK bytes and concatenate to the data
ChunkLaw == LET c == Chunks(cur.data) IN FlattenSeq(c) = cur.data /\ \A j \in DOMAIN c : Len(c[j]) \in 1..BLK
=============================================================================
