---------------------------- MODULE AsmTemplates ----------------------------
(* The statement templates of the bounded assembler model (one per size class / operand kind) *)
EXTENDS Asm
NoT == [k |-> "none", n |-> 0, s |-> "", sp |-> ""]
N(v) == [k |-> "num", n |-> v, s |-> "", sp |-> "dec"]
Sy(s) == [k |-> "sym", n |-> 0, s |-> s, sp |-> ""]
E1(t) == [l |-> t, op |-> "", r |-> NoT]
E2(a, op, b) == [l |-> a, op |-> op, r |-> b]
S0 == [label |-> "", mn |-> "NOP", form |-> "inh", force |-> "", reg |-> "X", sub |-> "zero", acc |-> "A", ind |-> FALSE,
       regs |-> <<>>, r1 |-> "D", r2 |-> "D", expr |-> E1(NoT), vals |-> <<>>, chars |-> <<>>]
Tpl == {
  S0,
  [S0 EXCEPT !.mn = "LDA", !.form = "imm", !.expr = E1(N(5))],
  [S0 EXCEPT !.mn = "LDX", !.form = "imm", !.expr = E1(Sy("LA"))],
  [S0 EXCEPT !.mn = "JMP", !.form = "mem", !.expr = E1(Sy("LA"))],
  [S0 EXCEPT !.mn = "STA", !.form = "mem", !.expr = E2(Sy("LB"), "+", N(1))],
  [S0 EXCEPT !.mn = "LDA", !.form = "mem", !.force = "<", !.expr = E1(N(16))],
  [S0 EXCEPT !.mn = "LDA", !.form = "idx", !.sub = "off", !.reg = "Y", !.expr = E1(N(-20))],
  [S0 EXCEPT !.mn = "LDY", !.form = "idx", !.sub = "off", !.reg = "U", !.expr = E1(Sy("LA"))],
  [S0 EXCEPT !.mn = "LDA", !.form = "pcr", !.expr = E1(Sy("LA"))],
  [S0 EXCEPT !.mn = "LEAX", !.form = "pcr", !.ind = TRUE, !.expr = E1(Sy("LB"))],
  [S0 EXCEPT !.mn = "BRA", !.form = "rel", !.expr = E1(Sy("LA"))],
  [S0 EXCEPT !.mn = "LBNE", !.form = "rel", !.expr = E1(Sy("LB"))],
  [S0 EXCEPT !.mn = "FDB", !.form = "fdb", !.vals = <<E1(Sy("LA")), E1(N(4660))>>],
  [S0 EXCEPT !.mn = "FCB", !.form = "fcb", !.vals = <<E1(N(-1)), E1(N(255))>>],
  [S0 EXCEPT !.mn = "RMB", !.form = "rmb", !.expr = E1(N(125))],
  [S0 EXCEPT !.mn = "RMB", !.form = "rmb", !.expr = E1(N(3))],
  [S0 EXCEPT !.mn = "EQU", !.form = "equ", !.expr = E1(N(300))],
  [S0 EXCEPT !.mn = "ORG", !.form = "org", !.expr = E1(N(240))],
  [S0 EXCEPT !.mn = "ORG", !.form = "org", !.expr = E1(N(4096))] }
=============================================================================
