-------------------------------- MODULE Disk --------------------------------
(* Disk BASIC (RS-DOS) file allocation as an abstract machine.  Granule CONTENT is abstract here
   ([file, from, to) ranges of the stored stream); the byte level is DiskBytes / Tr_Disk.
   state d = [fat, dir]
     fat : [0..NG-1 -> Int]   -1 free | 0..NG-1 next granule of the chain | 100+s last granule, s sectors used
     dir : Seq([id, first, lastb, len])          one entry per stored file, in slot order (len = stream length)
   A file's stored stream has length L: preamble + data + postamble for machine language, 3 + data for BASIC,
   data for ASCII (Stream in DiskBytes).                                                              *)
EXTENDS Integers, Sequences, FiniteSets, SequencesExt, TLC
CONSTANTS NG, GB, SB, SLOTS

NeedMin(L) == IF L = 0 THEN 1 ELSE (L + GB - 1) \div GB
NeedMax(L) == (L \div GB) + 1
Needs(L) == {NeedMin(L), NeedMax(L)}                 \* one more than the minimum exactly when L is a multiple of GB (or 0)
Empty == [fat |-> [g \in 0..(NG - 1) |-> -1], dir |-> <<>>]
Free(d) == {g \in 0..(NG - 1) : d.fat[g] = -1}
RECURSIVE ChainFrom(_, _, _)
ChainFrom(fat, g, seen) == IF g \notin DOMAIN fat \/ g \in Range(seen) THEN Append(seen, -1)
                           ELSE IF fat[g] >= 100 THEN Append(seen, g)
                           ELSE IF fat[g] = -1 THEN Append(Append(seen, g), -1)
                           ELSE ChainFrom(fat, fat[g], Append(seen, g))
Chain(d, k) == ChainFrom(d.fat, d.dir[k].first, <<>>)
ChainOK(ch) == Len(ch) > 0 /\ ch[Len(ch)] # -1
\* sectors / bytes bookkeeping of the last granule for a stream of length L stored in n granules
LastLen(L, n) == L - (n - 1) * GB
SectorsOf(x) == (x \div SB) + 1
LastBytesOf(x) == x - (SectorsOf(x) - 1) * SB
Implied(n, s, lastb) == (n - 1) * GB + (IF s = 0 THEN 0 ELSE (s - 1) * SB) + lastb

\* AddFile: alloc is a sequence of distinct free granules of an admissible length, there is a free slot
CanAdd(d, L, alloc) == /\ Len(alloc) \in Needs(L) /\ Len(d.dir) < SLOTS
                       /\ \A i \in DOMAIN alloc : alloc[i] \in Free(d) /\ \A j \in DOMAIN alloc : i # j => alloc[i] # alloc[j]
AddFile(d, id, L, alloc) ==
  LET n == Len(alloc)
      x == LastLen(L, n) IN
  [fat |-> [g \in 0..(NG - 1) |-> IF \E i \in 1..(n - 1) : alloc[i] = g THEN alloc[(CHOOSE i \in 1..(n - 1) : alloc[i] = g) + 1]
                                 ELSE IF g = alloc[n] THEN 100 + SectorsOf(x) ELSE d.fat[g]],
   dir |-> Append(d.dir, [id |-> id, first |-> alloc[1], lastb |-> LastBytesOf(x), len |-> L])]
MustFit(d, L) == NeedMax(L) <= Cardinality(Free(d)) /\ Len(d.dir) < SLOTS
CannotFit(d, L) == NeedMin(L) > Cardinality(Free(d)) \/ Len(d.dir) >= SLOTS

\* ---- invariants of a state
ChainsValid(d) == \A k \in DOMAIN d.dir : LET ch == Chain(d, k) IN ChainOK(ch) /\ d.fat[ch[Len(ch)]] - 100 \in 0..9
ChainsDisjoint(d) == \A a, b \in DOMAIN d.dir : a # b => (Range(Chain(d, a)) \cap Range(Chain(d, b))) \ {-1} = {}
NoOrphan(d) == {g \in 0..(NG - 1) : d.fat[g] # -1} = UNION {Range(Chain(d, k)) \ {-1} : k \in DOMAIN d.dir}
LengthConsistent(d) == \A k \in DOMAIN d.dir : LET ch == Chain(d, k) IN
                          ChainOK(ch) => Implied(Len(ch), d.fat[ch[Len(ch)]] - 100, d.dir[k].lastb) = d.dir[k].len /\ Len(ch) \in Needs(d.dir[k].len)
Capacity(d) == Len(d.dir) <= SLOTS /\ Cardinality(Free(d)) + Cardinality(UNION {Range(Chain(d, k)) \ {-1} : k \in DOMAIN d.dir}) = NG
=============================================================================
