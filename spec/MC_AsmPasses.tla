---------------------------- MODULE MC_AsmPasses ----------------------------
(* The pass structure as a state machine TLC explores: for EVERY abstract program of N statements over the mnemonic
   classes ORG / EQU / OP (fixed size) / PCR (label,PCR: size decided by the sizing loop) and every way the
   nondeterministic steps can go, each pass step satisfies the step predicate the trace validator (Tr_Passes) applies
   to the real assembler, and the machine ends in the END-TO-END statement of C02:
       every address symbol = the address where its statement was placed,
       every statement follows its predecessor unless it is an ORG,
       what is emitted is as long as what was reserved.
   So the step predicates are (a) satisfiable by a real machine - no vacuous acceptance - and (b) together SUFFICIENT
   for the end-to-end property; Tr_Passes then only has to check the steps on the implementation's events.        *)
EXTENDS AsmPasses
CONSTANTS N, Labels, Orgs
VARIABLES p, stage, symbols, sizes, fixed, addrs, lens, final
vars == <<p, stage, symbols, sizes, fixed, addrs, lens, final>>

Mns == {"ORG", "EQU", "OP", "PCR"}
Programs == {q \in [n : {N}, mn : [1..N -> Mns], lab : [1..N -> Labels \cup {""}], orgv : [1..N -> Orgs \cup {-1}]] :
               /\ NoDuplicates(q)
               /\ \A i \in 1..N : (q.mn[i] = "ORG") <=> (q.orgv[i] # -1)
               /\ \A i \in 1..N : q.mn[i] = "EQU" => q.lab[i] # ""}
EquVal(i) == 1000 + i                          \* abstract value of the EQU at statement i (distinct from every address)

Init == /\ p \in Programs
        /\ stage = 0 /\ symbols = <<>> /\ sizes = <<>> /\ fixed = <<>> /\ addrs = <<>> /\ lens = <<>> /\ final = <<>>

Idx(q) == SelectSeq([i \in 1..q.n |-> i], LAMBDA i : q.lab[i] # "")
Collect == /\ stage = 0
           /\ symbols' = [k \in DOMAIN Idx(p) |-> LET i == Idx(p)[k] IN
                            IF p.mn[i] = "EQU" THEN <<p.lab[i], "value", EquVal(i)>> ELSE <<p.lab[i], "addr", i - 1>>]
           /\ stage' = 1 /\ UNCHANGED <<p, sizes, fixed, addrs, lens, final>>
Translate == /\ stage = 1
             /\ \E sz \in [1..N -> 0..3] :
                  /\ \A i \in 1..N : CASE p.mn[i] \in {"ORG", "EQU"} -> sz[i] = 0
                                       [] p.mn[i] = "OP" -> sz[i] \in 1..2
                                       [] OTHER -> sz[i] = 3
                  /\ sizes' = sz
             /\ fixed' = [i \in 1..N |-> p.mn[i] # "PCR"]
             /\ stage' = 2 /\ UNCHANGED <<p, symbols, addrs, lens, final>>
SizeStep == /\ stage = 2
            /\ \E i \in 1..N : /\ ~fixed[i]
                               /\ \E s \in {3, 4} : sizes' = [sizes EXCEPT ![i] = s]
                               /\ fixed' = [fixed EXCEPT ![i] = TRUE]
            /\ UNCHANGED <<p, stage, symbols, addrs, lens, final>>
Lay == /\ stage = 2 /\ \A i \in 1..N : fixed[i]
       /\ addrs' = [i \in 1..N |->
                      LET RECURSIVE A(_)
                          A(j) == IF p.mn[j] = "ORG" THEN p.orgv[j] % 65536 ELSE IF j = 1 THEN 0 ELSE A(j - 1) + sizes[j - 1]
                      IN A(i)]
       /\ stage' = 3 /\ UNCHANGED <<p, symbols, sizes, fixed, lens, final>>
Fix == /\ stage = 3 /\ lens' = sizes /\ stage' = 4 /\ UNCHANGED <<p, symbols, sizes, fixed, addrs, final>>
Backpatch == /\ stage = 4
             /\ final' = [k \in DOMAIN symbols |-> <<symbols[k][1], IF symbols[k][2] = "addr" THEN addrs[symbols[k][3] + 1] ELSE symbols[k][3]>>]
             /\ stage' = 5 /\ UNCHANGED <<p, symbols, sizes, fixed, addrs, lens>>
Next == Collect \/ Translate \/ SizeStep \/ Lay \/ Fix \/ Backpatch
Spec == Init /\ [][Next]_vars

\* every step satisfies the predicate the trace validator applies to the implementation
StepsOK ==
  /\ (stage >= 1 => CollectOK(p, symbols))
  /\ (stage >= 2 => TranslateOK(p, sizes, fixed))
  /\ (stage >= 3 => LayOK(p, sizes, addrs))
  /\ (stage >= 4 => FixOK(sizes, lens))
  /\ (stage >= 5 => BackpatchOK(p, symbols, addrs, final))
SizeMonotone == [][stage = 2 /\ stage' = 2 => SizeStepOK(sizes, fixed, sizes', fixed')]_vars
\* the end-to-end statement, phrased without reference to the passes
Start(i) == LET RECURSIVE S(_)
                S(j) == IF p.mn[j] = "ORG" THEN p.orgv[j] % 65536 ELSE IF j = 1 THEN 0 ELSE S(j - 1) + lens[j - 1]
            IN S(i)
EndToEnd == stage = 5 =>
  /\ \A i \in 1..N : p.lab[i] # "" =>
       \E k \in DOMAIN final : /\ final[k][1] = p.lab[i]
                               /\ final[k][2] = IF p.mn[i] = "EQU" THEN EquVal(i) ELSE Start(i)
  /\ Len(final) = Cardinality(LabelsIn(p))
\* ... and the converse direction used by the validator: ANY values that satisfy the step predicates give the end-to-end
\* property (checked here over the machine's own reachable states by perturbing one address / one symbol)
Perturbed == stage = 5 =>
  /\ \A i \in 1..N : \A d \in {-1, 1} : ~LayOK(p, sizes, [addrs EXCEPT ![i] = @ + d])
  /\ \A i \in 1..N : ~FixOK(sizes, [lens EXCEPT ![i] = @ + 1])
  /\ \A k \in DOMAIN final : symbols[k][2] = "addr" => ~BackpatchOK(p, symbols, addrs, [final EXCEPT ![k] = <<@[1], @[2] + 1>>])
=============================================================================
