------------------------------ MODULE MC_Disk ------------------------------
(* All add-sequences on the abstract allocation machine.  ALLOC = "order": granules are taken in a fixed fill
   order (the tool's policy, real geometry); ALLOC = "any": any free granules in any order (every fill order /
   fragmentation, small geometry).  An add that cannot fit leaves the state unchanged.                      *)
EXTENDS Disk
CONSTANTS Lens, Order, AnyAlloc, MaxAdds
DefaultOrder == <<32, 33, 34, 35, 30, 31, 36, 37, 28, 29, 38, 39, 26, 27, 40, 41, 24, 25, 42, 43, 22, 23, 40, 41, 20, 21, 42, 43, 18, 19, 44, 45,
                  16, 17, 46, 47, 14, 15, 48, 49, 12, 13, 50, 51, 10, 11, 52, 53, 8, 9, 54, 55, 6, 7, 56, 57, 4, 5, 58, 59, 2, 3, 60, 61,
                  0, 1, 62, 63, 64, 65, 66, 67>>
ReverseOrder == [k \in 1..68 |-> 68 - k]
SmallOrder == <<0>>
VARIABLES d, n, last
vars == <<d, n, last>>
Init == d = Empty /\ n = 0 /\ last = "none"
\* the tool marks a granule as taken the moment it picks it, so a fill order with repeated entries behaves like its de-duplication
Dedup(s) == SelectSeq([i \in DOMAIN s |-> IF \E j \in 1..(i - 1) : s[j] = s[i] THEN -1 ELSE s[i]], LAMBDA g : g # -1)
FirstFree(k) == LET fr == SelectSeq(Dedup(Order), LAMBDA g : g \in Free(d)) IN SubSeq(fr, 1, IF k < Len(fr) THEN k ELSE Len(fr))
RECURSIVE Perms(_, _)
Perms(S, k) == IF k = 0 THEN {<<>>} ELSE UNION {{<<x>> \o p : p \in Perms(S \ {x}, k - 1)} : x \in S}
Allocs(L) == IF AnyAlloc THEN UNION {Perms(Free(d), k) : k \in {m \in Needs(L) : m <= Cardinality(Free(d))}}
             ELSE {FirstFree(NeedMax(L))} \ {a \in {FirstFree(NeedMax(L))} : Len(a) < NeedMax(L)}
Add(L) == /\ n < MaxAdds
          /\ \/ \E a \in Allocs(L) : CanAdd(d, L, a) /\ d' = AddFile(d, n + 1, L, a) /\ last' = "ok"
             \/ (~MustFit(d, L) /\ d' = d /\ last' = "fail")
          /\ n' = n + 1
Next == \E L \in Lens : Add(L)
Spec == Init /\ [][Next]_vars
Valid == ChainsValid(d)
Disjoint == ChainsDisjoint(d)
Orphans == NoOrphan(d)
Lengths == LengthConsistent(d)
Cap == Capacity(d)
\* an add never changes an existing file's entry or chain, and a failing add changes nothing (action property)
OldFilesStable == [][\A k \in DOMAIN d.dir : d'.dir[k] = d.dir[k] /\ Chain(d', k) = Chain(d, k)]_vars
\* a file that must fit is never refused: in every state, for every length, MustFit implies some admissible allocation exists
FitsIfRoom == \A L \in Lens : MustFit(d, L) => \E a \in Allocs(L) : CanAdd(d, L, a)
=============================================================================
