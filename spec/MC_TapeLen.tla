----------------------------- MODULE MC_TapeLen -----------------------------
(* Chunking law at the real block size for EVERY data length 0..65535 (content-free, exhaustive):
   the number of data blocks, the size of each, and that they add up to the length.            *)
EXTENDS Integers, Sequences, FiniteSets, TLC, Json, IOUtils
BLK == 255
NChunks(n) == (n + BLK - 1) \div BLK
ChunkLen(n, k) == IF k < NChunks(n) THEN BLK ELSE n - BLK * (NChunks(n) - 1)
Bad == {n \in 0..65535 : ~(/\ (n = 0) = (NChunks(n) = 0)
                           /\ \A k \in 1..NChunks(n) : ChunkLen(n, k) \in 1..BLK
                           /\ BLK * (NChunks(n) - 1) + (IF n = 0 THEN BLK ELSE ChunkLen(n, NChunks(n))) = (IF n = 0 THEN 0 ELSE n))}
VARIABLE x
Init == x = 0 /\ ndJsonSerialize(IOEnv.OUT_FILE, <<[lengths |-> 65536, bad |-> Cardinality(Bad)]>>)
Next == UNCHANGED x
Spec == Init /\ [][Next]_x
=============================================================================
