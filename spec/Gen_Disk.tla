------------------------------ MODULE Gen_Disk ------------------------------
(* The specification's own image writer: lays the stored streams of the given files into the given granule chains
   (any order, any fragmentation), builds the allocation table and directory (files in the given slots, killed entries in between).  Output: sparse image
   [id, fat (68), dir (2304), grans : Seq([g, b])]; the harness expands it to the 161,280-byte file.          *)
EXTENDS Tr_Disk
RECURSIVE PadTo(_, _)
PadTo(s, n) == IF Len(s) >= n THEN s ELSE s \o [k \in 1..(n - Len(s)) |-> 255]
Piece(S, i) == PadTo(SubSeq(S, (i - 1) * GB + 1, IF i * GB < Len(S) THEN i * GB ELSE Len(S)), GB)
DirBytes(f, fg, lastb) == Pad(UpSeq(f.name), 8) \o Pad(UpSeq(f.ext), 3) \o <<f.type, f.dtype, fg>> \o W16(lastb) \o [k \in 1..16 |-> 0]
Write(t) ==
  LET files == t.files
      chains == t.chains
      nf == Len(files)
      S(j) == Stream(files[j])
      lastx(j) == LastLen(Len(S(j)), Len(chains[j]))
      fat == [g1 \in 1..68 |-> LET g == g1 - 1
                                  own == {j \in 1..nf : g \in Range(chains[j])} IN
                              IF own = {} THEN 255 ELSE
                              LET j == CHOOSE j \in own : TRUE
                                  i == CHOOSE i \in DOMAIN chains[j] : chains[j][i] = g
                              IN IF i < Len(chains[j]) THEN chains[j][i + 1] ELSE 192 + SectorsOf(lastx(j))]
      \* t.slots[j]: the directory slot of file j (strictly increasing). A slot below the last used one that holds no file is a KILLED
      \* entry (first byte $00, the rest stale) - Disk BASIC skips those; slots behind the last used one were never used ($FF).
      slots == t.slots
      top == IF nf = 0 THEN 0 ELSE slots[nf]
      Killed == <<0, 73, 76, 76, 69, 68, 32, 32, 66, 65, 83, 0, 0, 5, 0, 9>> \o [k \in 1..16 |-> 0]
      dir == FlattenSeq([sl \in 1..SLOTS |-> IF \E j \in 1..nf : slots[j] = sl
                                              THEN LET j == CHOOSE j \in 1..nf : slots[j] = sl IN DirBytes(files[j], chains[j][1], LastBytesOf(lastx(j)))
                                              ELSE IF sl < top THEN Killed ELSE [k \in 1..32 |-> 255]])
      grans == FlattenSeq([j \in 1..nf |-> [i \in DOMAIN chains[j] |-> [g |-> chains[j][i], b |-> Piece(S(j), i)]]])
  IN [id |-> t.id, fat |-> fat, dir |-> dir, grans |-> grans]
InitW == x = 0 /\ ndJsonSerialize(IOEnv.OUT_FILE, [k \in DOMAIN Batch |-> Write(Batch[k])])
NextW == UNCHANGED x
SpecW == InitW /\ [][NextW]_x
=============================================================================
