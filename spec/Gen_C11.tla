------------------------------ MODULE Gen_C11 ------------------------------
(* Configuration space of C11: where the name comes from x name shape x output switches (alone and combined) x origin x image size *)
EXTENDS Integers, Sequences, FiniteSets, SequencesExt, TLC, Json, IOUtils
Names == {"A", "ABCDEFGH", "ABCDEFGHI", "abcdefghijkl", "MiXed", "prog1"}
NameSrc == {"nam", "cli", "both", "none"}
Switches == {<<"bin">>, <<"cas">>, <<"dsk">>, <<"bin", "cas">>, <<"cas", "dsk">>, <<"bin", "dsk">>, <<"bin", "cas", "dsk">>}
Origins == {-1, 16, 3584, 61440}
Sizes == {1, 3, 255, 256, 2294, 2295, 2299, 2300, 2304, 2305, 4000, 52000}
Out == SetToSeq({[name |-> n, src |-> s, sw |-> w, org |-> o, size |-> z, endop |-> e] : n \in Names, s \in NameSrc, w \in Switches, o \in Origins, z \in Sizes, e \in BOOLEAN})
VARIABLE x
Init == x = 0 /\ ndJsonSerialize(IOEnv.OUT_FILE, Out)
Next == UNCHANGED x
Spec == Init /\ [][Next]_x
=============================================================================
