SPECIFICATION Spec
CONSTANTS NG = 5
 GB = 4
 SB = 2
 SLOTS = 3
 Lens = {0, 1, 3, 4, 5, 8, 9}
 Order <- SmallOrder
 AnyAlloc = TRUE
 MaxAdds = 4
INVARIANT Valid
INVARIANT Disjoint
INVARIANT Orphans
INVARIANT Lengths
INVARIANT Cap
INVARIANT FitsIfRoom
PROPERTY OldFilesStable
CHECK_DEADLOCK FALSE
