------------------------------ MODULE AsmPasses ------------------------------
(* The assembler's pass structure (program.py translate_statements) as a state machine over ABSTRACT per-statement
   facts, one action per pass, with the inter-pass invariants that make the final output right:
     Collect    : every label enters the symbol table once - an EQU label with its value, any other label as the INDEX
                  of its statement (an address not yet known)
     Translate  : every statement gets a size; only label,PCR statements are still undecided
     Size       : the sizing loop (AsmSizing) decides them - sizes only grow, decided ones stay
     Lay        : addresses: ORG statements take their operand, every other statement follows its predecessor
     Fix        : operand bytes are filled in; the bytes of every statement are exactly as long as its size
     Backpatch  : address symbols get the address of the statement they index
   p = [n, mn : Seq(mnemonic), lab : Seq(label or ""), orgv : Seq(Int) (operand of ORG statements, else -1)]
   The same step predicates judge the hook events of the real passes (Tr_Passes).                              *)
EXTENDS Integers, Sequences, FiniteSets, SequencesExt, TLC

LabelsIn(p) == {p.lab[i] : i \in 1..p.n} \ {""}
FirstIdx(p, s) == CHOOSE i \in 1..p.n : p.lab[i] = s /\ \A j \in 1..(i - 1) : p.lab[j] # s
\* Collect: symbols = [name, kind, v] in statement order (dict insertion order)
CollectOK(p, symbols) ==
  LET labs == SelectSeq([i \in 1..p.n |-> p.lab[i]], LAMBDA s : s # "") IN
  /\ Len(symbols) = Len(labs)
  /\ \A k \in DOMAIN symbols : /\ symbols[k][1] = labs[k]
                               /\ LET i == FirstIdx(p, labs[k]) IN
                                  IF p.mn[i] = "EQU" THEN symbols[k][2] = "value" ELSE symbols[k][2] = "addr" /\ symbols[k][3] = i - 1
NoDuplicates(p) == \A i, j \in 1..p.n : (i # j /\ p.lab[i] # "") => p.lab[i] # p.lab[j]
\* Translate: sizes are natural numbers, max >= 0, a non-PCR statement is decided
TranslateOK(p, sizes, fixed) == Len(sizes) = p.n /\ Len(fixed) = p.n /\ \A i \in 1..p.n : sizes[i] >= 0
\* Size: monotone, decided stays decided
SizeStepOK(s0, f0, s1, f1) == \A i \in DOMAIN s0 : s1[i] >= s0[i] /\ (f0[i] => (f1[i] /\ s1[i] = s0[i]))
\* Lay
LayOK(p, sizes, addrs) ==
  /\ Len(addrs) = p.n
  /\ \A i \in 1..p.n : IF p.mn[i] = "ORG" THEN addrs[i] = p.orgv[i] % 65536
                       ELSE IF i = 1 THEN addrs[i] = 0
                       ELSE addrs[i] = addrs[i - 1] + sizes[i - 1]
\* Fix: what is emitted is as long as what was reserved
FixOK(sizes, lens) == \A i \in DOMAIN sizes : lens[i] = sizes[i]
\* Backpatch
BackpatchOK(p, collected, addrs, final) ==
  /\ Len(final) = Len(collected)
  /\ \A k \in DOMAIN collected : final[k][1] = collected[k][1]
                                 /\ (collected[k][2] = "addr" => final[k][2] = addrs[collected[k][3] + 1])
                                 /\ (collected[k][2] = "value" => final[k][2] = collected[k][3])
Order == <<"Collected", "Translated", "Laid", "Fixed", "Backpatched">>
=============================================================================
