SPECIFICATION Spec
CONSTANT BLK = 3
CONSTANT MaxData = 3
INVARIANT RoundTrip
INVARIANT ChunkLaw
CHECK_DEADLOCK FALSE
