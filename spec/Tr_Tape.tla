------------------------------ MODULE Tr_Tape ------------------------------
(* Trace validation for the cassette container.  One record per observed tape:
   t = [id, origin ("tool" | "spec"), files (what was written), buffer (bytes), listed : [ok, files, exc]]
   clauses: wellformed, contents, blocks (C14: the tool's stream scans, holds exactly the files, block count as the
   chunking law says); roundtrip (C06: the tool's own listing returns the files).                              *)
EXTENDS Tape, Json, IOUtils
Batch == ndJsonDeserialize(IOEnv.TRACE_FILE)
LenClass(n) == CASE n = 0 -> "0" [] n < 255 -> "1..254" [] n = 255 -> "255" [] n % 255 = 0 -> "k*255" [] n < 510 -> "256..509" [] OTHER -> ">510"
NameClass(nm) == CASE Len(nm) = 0 -> "empty" [] Len(nm) < 8 -> "short" [] Len(nm) = 8 -> "8" [] OTHER -> "long"
FileClass(f) == [len |-> LenClass(Len(f.data)), name |-> NameClass(f.name), type |-> f.type, dtype |-> f.dtype]
RECURSIVE SumBlocks(_, _)
SumBlocks(fs, k) == IF k > Len(fs) THEN 0 ELSE 2 + NChunks(Len(fs[k].data)) + SumBlocks(fs, k + 1)
FirstDiff(as, bs) == LET ks == {k \in 1..(IF Len(as) < Len(bs) THEN Len(as) ELSE Len(bs)) : ~FEq(as[k], bs[k])} IN
                     IF ks = {} THEN (IF Len(as) = Len(bs) THEN 0 ELSE (IF Len(as) < Len(bs) THEN Len(as) ELSE Len(bs)) + 1)
                     ELSE CHOOSE k \in ks : \A j \in ks : k <= j
Judge(t) ==
  LET r == ParseTape(t.buffer)
      cl == [wellformed |-> r.ok,
             contents |-> r.ok => SameFiles(r.files, t.files),
             blocks |-> r.ok => r.nblocks >= SumBlocks(t.files, 1),      \* never fewer blocks than 2 + ceil(len / 255) per file (more, smaller ones are within the property)
             leaders |-> r.ok => r.noleader = 0,
             roundtrip |-> t.listed.ok /\ SameFiles(t.listed.files, t.files)]
      d == IF t.listed.ok THEN FirstDiff(t.listed.files, t.files) ELSE 1
      bad == IF d \in DOMAIN t.files THEN d ELSE IF Len(t.files) > 0 THEN Len(t.files) ELSE 0
  IN [id |-> t.id, failed |-> SetToSeq({c \in DOMAIN cl : ~cl[c]}), why |-> r.why,
      nfiles |-> Len(t.files), nparsed |-> Len(r.files), nlisted |-> Len(t.listed.files), firstdiff |-> d,
      hasempty |-> \E k \in DOMAIN t.files : Len(t.files[k].data) = 0,
      emptybefore |-> \E k \in DOMAIN t.files : Len(t.files[k].data) = 0 /\ k <= d,
      fclass |-> IF bad = 0 THEN [len |-> "", name |-> "", type |-> 0, dtype |-> 0] ELSE FileClass(t.files[bad]),
      classes |-> [k \in DOMAIN t.files |-> FileClass(t.files[k])]]
VARIABLE x
Init == x = 0 /\ ndJsonSerialize(IOEnv.OUT_FILE, [k \in DOMAIN Batch |-> Judge(Batch[k])])
Next == UNCHANGED x
Spec == Init /\ [][Next]_x
=============================================================================
