-------------------------------- MODULE Host --------------------------------
(* The host-file layer as driven by the two command line tools: open -> sniff -> add -> save on ONE target path.
   content c = [kind, files, big]
     kind  : "absent" | "empty" (0 bytes) | "cas" | "dsk" | "raw" (a raw binary) | "junk" (arbitrary bytes)
     files : Seq(FileId)   what the container holds, in order (raw: the files whose data it is)
     big   : a cassette image of at least 161,280 bytes (the size of a disk image)
   cmd = [tool ("asm" | "util"), sw ("bin" | "cas" | "dsk" | "list" = file_util <path> --list), app (--append), named (asm: NAM or --name given),
          new : Seq(FileId) (the program / the selected files of the source image), srcn : files in the source image]
   Allowed(pre, cmd, need) is the REQUIRED post content (a set: where the properties leave latitude both outcomes are in it).
   need(ids) : whether those files fit on a 35-track disk (Disk.tla accounting), supplied by the instance.            *)
EXTENDS Integers, Sequences, FiniteSets, SequencesExt, TLC

C(k, b, fs) == [kind |-> k, big |-> b, files |-> fs]
Absent == C("absent", FALSE, <<>>)
\* what a completed save leaves at the path
Written(sw, pre, fs) == IF sw = "cas" THEN (IF fs = <<>> THEN C("empty", FALSE, <<>>) ELSE C("cas", pre.big, fs))
                        ELSE IF sw = "dsk" THEN C("dsk", FALSE, fs)
                        ELSE (IF fs = <<>> THEN C("empty", FALSE, <<>>) ELSE C("raw", FALSE, fs))
Allowed(pre, cmd, Fits(_)) ==
  LET P == cmd.new
      U == {pre}
      W(fs) == {Written(cmd.sw, pre, fs)}
  IN
  IF cmd.sw = "list" THEN U                                                            \* file_util <path> --list only reads
  ELSE IF cmd.tool = "asm" /\ cmd.sw \in {"cas", "dsk"} /\ ~cmd.named THEN U         \* no name: no cassette / disk file is created
  ELSE IF cmd.tool = "util" /\ cmd.sw = "bin" /\ cmd.srcn # 1 THEN U                \* --to_bin needs exactly one file in the source image
  ELSE CASE pre.kind = "absent" -> IF cmd.sw = "dsk" /\ ~Fits(P) THEN U ELSE W(P)
         [] pre.kind = "empty"  -> IF cmd.app THEN U \cup (IF cmd.sw = "dsk" /\ ~Fits(P) THEN {} ELSE W(P)) ELSE U
         [] pre.kind = "cas"    -> IF cmd.app /\ cmd.sw = "cas" THEN W(pre.files \o P) ELSE U
         [] pre.kind = "dsk"    -> IF cmd.app /\ cmd.sw = "dsk" THEN (IF Fits(pre.files \o P) THEN W(pre.files \o P) ELSE U) ELSE U
         [] OTHER               -> IF cmd.app /\ cmd.sw = "bin" THEN U \cup W(P) ELSE U          \* raw / junk

\* ---- the properties, phrased independently of the table (TLC checks the table against them on MC_Host)
KindOfSw(sw) == IF sw = "bin" THEN "raw" ELSE sw
Compatible(pre, sw) == (pre.kind = "cas" /\ sw = "cas") \/ (pre.kind = "dsk" /\ sw = "dsk") \/ (pre.kind \in {"raw", "junk"} /\ sw = "bin") \/ pre.kind = "empty"
\* C10: an existing target changes only when append was requested and the content is of the kind being written
OnlyAppendModifies(pre, cmd, post) == post # pre => (pre.kind = "absent" \/ (cmd.app /\ Compatible(pre, cmd.sw)))
\* C10: what is written is a complete image of the requested kind
CompleteImage(pre, cmd, post) == post # pre => post.kind \in {KindOfSw(cmd.sw), "empty"}
\* C09: files already stored are still there, in order, before the new ones; the kind is unchanged
AppendPreserves(pre, cmd, post) == (post # pre /\ pre.kind \in {"cas", "dsk"}) => (IsPrefix(pre.files, post.files) /\ post.kind = pre.kind /\ post.files = pre.files \o cmd.new)
\* C09 / C15: an append that applies and fits does happen
Applies(pre, cmd) == cmd.app /\ ((pre.kind = "cas" /\ cmd.sw = "cas") \/ (pre.kind = "dsk" /\ cmd.sw = "dsk"))
                     /\ ~(cmd.tool = "asm" /\ ~cmd.named) /\ ~(cmd.tool = "util" /\ cmd.sw = "bin" /\ cmd.srcn # 1) /\ cmd.new # <<>>
AppendHappens(pre, cmd, post, Fits(_)) == (Applies(pre, cmd) /\ (cmd.sw = "dsk" => Fits(pre.files \o cmd.new))) => post # pre
\* C15: a disk never holds more than fits; a file that does not fit leaves the host file as it was
CapacityRespected(pre, cmd, post, Fits(_)) ==
  /\ (post.kind = "dsk" => Fits(post.files))
  /\ ((cmd.sw = "dsk" /\ pre.kind \in {"dsk", "absent", "empty"} /\ ~Fits((IF pre.kind = "dsk" THEN pre.files ELSE <<>>) \o cmd.new)) => post = pre)
\* listing is read-only (beyond the listed properties: the listing command of file_util never changes the image it lists)
ReadOnly(pre, cmd, post) == cmd.sw = "list" => post = pre
\* C11 / C16: a new path gets exactly the new files
NewPathHoldsNew(pre, cmd, post) == (pre.kind = "absent" /\ post # pre) => post.files = cmd.new
=============================================================================
