------------------------------ MODULE Tr_Asm ------------------------------
(* Bulk trace validation of recorded assemblies against the certificate of Asm.tla *)
EXTENDS Asm, Json, IOUtils
Batch == ndJsonDeserialize(IOEnv.TRACE_FILE)
VARIABLE x
Init == x = 0 /\ LET vs == [k \in DOMAIN Batch |-> Judge(Batch[k])] IN
        ndJsonSerialize(IOEnv.OUT_FILE, vs) /\ PrintT(<<"judged", Len(vs), "failing", Len(SelectSeq(vs, LAMBDA v : v.items # <<>>))>>)
Next == UNCHANGED x
Spec == Init /\ [][Next]_x
=============================================================================
