SPECIFICATION Spec
CONSTANTS Names = {"a", "b", "c"}
 Missing = "zz"
 MaxLen = 2
 Stmts = {1, 2}
INVARIANT TextualInclusion
INVARIANT RejectsExactly
INVARIANT StackBounded
PROPERTY Terminates
CHECK_DEADLOCK FALSE
