------------------------------- MODULE M6809 -------------------------------
(* MC6809 instruction codec, transcribed from the datasheet twice:            *)
(*   OpRows    - by mnemonic (programming-model order)                         *)
(*   MapRows   - by opcode   (opcode-map order, 16 x 16 grids per page)        *)
EXTENDS Integers, Sequences, FiniteSets, SequencesExt, TLC

Byte == 0..255
NA == <<>>                       \* addressing mode absent

\* ---------------------------------------------------------------- by mnemonic
\* <<mnemonic, inherent, immediate, direct, indexed, extended, relative, immediate width>>
OpRows == <<
 <<"ABX",  <<58>>, NA, NA, NA, NA, NA, 0>>,
 <<"ADCA", NA, <<137>>, <<153>>, <<169>>, <<185>>, NA, 1>>,
 <<"ADCB", NA, <<201>>, <<217>>, <<233>>, <<249>>, NA, 1>>,
 <<"ADDA", NA, <<139>>, <<155>>, <<171>>, <<187>>, NA, 1>>,
 <<"ADDB", NA, <<203>>, <<219>>, <<235>>, <<251>>, NA, 1>>,
 <<"ADDD", NA, <<195>>, <<211>>, <<227>>, <<243>>, NA, 2>>,
 <<"ANDA", NA, <<132>>, <<148>>, <<164>>, <<180>>, NA, 1>>,
 <<"ANDB", NA, <<196>>, <<212>>, <<228>>, <<244>>, NA, 1>>,
 <<"ANDCC",NA, <<28>>, NA, NA, NA, NA, 1>>,
 <<"ASL",  NA, NA, <<8>>,  <<104>>, <<120>>, NA, 0>>,
 <<"ASLA", <<72>>, NA, NA, NA, NA, NA, 0>>,
 <<"ASLB", <<88>>, NA, NA, NA, NA, NA, 0>>,
 <<"ASR",  NA, NA, <<7>>,  <<103>>, <<119>>, NA, 0>>,
 <<"ASRA", <<71>>, NA, NA, NA, NA, NA, 0>>,
 <<"ASRB", <<87>>, NA, NA, NA, NA, NA, 0>>,
 <<"BITA", NA, <<133>>, <<149>>, <<165>>, <<181>>, NA, 1>>,
 <<"BITB", NA, <<197>>, <<213>>, <<229>>, <<245>>, NA, 1>>,
 <<"CLR",  NA, NA, <<15>>, <<111>>, <<127>>, NA, 0>>,
 <<"CLRA", <<79>>, NA, NA, NA, NA, NA, 0>>,
 <<"CLRB", <<95>>, NA, NA, NA, NA, NA, 0>>,
 <<"CMPA", NA, <<129>>, <<145>>, <<161>>, <<177>>, NA, 1>>,
 <<"CMPB", NA, <<193>>, <<209>>, <<225>>, <<241>>, NA, 1>>,
 <<"CMPD", NA, <<16,131>>, <<16,147>>, <<16,163>>, <<16,179>>, NA, 2>>,
 <<"CMPS", NA, <<17,140>>, <<17,156>>, <<17,172>>, <<17,188>>, NA, 2>>,
 <<"CMPU", NA, <<17,131>>, <<17,147>>, <<17,163>>, <<17,179>>, NA, 2>>,
 <<"CMPX", NA, <<140>>, <<156>>, <<172>>, <<188>>, NA, 2>>,
 <<"CMPY", NA, <<16,140>>, <<16,156>>, <<16,172>>, <<16,188>>, NA, 2>>,
 <<"COM",  NA, NA, <<3>>,  <<99>>,  <<115>>, NA, 0>>,
 <<"COMA", <<67>>, NA, NA, NA, NA, NA, 0>>,
 <<"COMB", <<83>>, NA, NA, NA, NA, NA, 0>>,
 <<"CWAI", NA, <<60>>, NA, NA, NA, NA, 1>>,
 <<"DAA",  <<25>>, NA, NA, NA, NA, NA, 0>>,
 <<"DEC",  NA, NA, <<10>>, <<106>>, <<122>>, NA, 0>>,
 <<"DECA", <<74>>, NA, NA, NA, NA, NA, 0>>,
 <<"DECB", <<90>>, NA, NA, NA, NA, NA, 0>>,
 <<"EORA", NA, <<136>>, <<152>>, <<168>>, <<184>>, NA, 1>>,
 <<"EORB", NA, <<200>>, <<216>>, <<232>>, <<248>>, NA, 1>>,
 <<"EXG",  NA, <<30>>, NA, NA, NA, NA, 1>>,
 <<"INC",  NA, NA, <<12>>, <<108>>, <<124>>, NA, 0>>,
 <<"INCA", <<76>>, NA, NA, NA, NA, NA, 0>>,
 <<"INCB", <<92>>, NA, NA, NA, NA, NA, 0>>,
 <<"JMP",  NA, NA, <<14>>, <<110>>, <<126>>, NA, 0>>,
 <<"JSR",  NA, NA, <<157>>, <<173>>, <<189>>, NA, 0>>,
 <<"LDA",  NA, <<134>>, <<150>>, <<166>>, <<182>>, NA, 1>>,
 <<"LDB",  NA, <<198>>, <<214>>, <<230>>, <<246>>, NA, 1>>,
 <<"LDD",  NA, <<204>>, <<220>>, <<236>>, <<252>>, NA, 2>>,
 <<"LDS",  NA, <<16,206>>, <<16,222>>, <<16,238>>, <<16,254>>, NA, 2>>,
 <<"LDU",  NA, <<206>>, <<222>>, <<238>>, <<254>>, NA, 2>>,
 <<"LDX",  NA, <<142>>, <<158>>, <<174>>, <<190>>, NA, 2>>,
 <<"LDY",  NA, <<16,142>>, <<16,158>>, <<16,174>>, <<16,190>>, NA, 2>>,
 <<"LEAS", NA, NA, NA, <<50>>, NA, NA, 0>>,
 <<"LEAU", NA, NA, NA, <<51>>, NA, NA, 0>>,
 <<"LEAX", NA, NA, NA, <<48>>, NA, NA, 0>>,
 <<"LEAY", NA, NA, NA, <<49>>, NA, NA, 0>>,
 <<"LSL",  NA, NA, <<8>>,  <<104>>, <<120>>, NA, 0>>,
 <<"LSLA", <<72>>, NA, NA, NA, NA, NA, 0>>,
 <<"LSLB", <<88>>, NA, NA, NA, NA, NA, 0>>,
 <<"LSR",  NA, NA, <<4>>,  <<100>>, <<116>>, NA, 0>>,
 <<"LSRA", <<68>>, NA, NA, NA, NA, NA, 0>>,
 <<"LSRB", <<84>>, NA, NA, NA, NA, NA, 0>>,
 <<"MUL",  <<61>>, NA, NA, NA, NA, NA, 0>>,
 <<"NEG",  NA, NA, <<0>>,  <<96>>,  <<112>>, NA, 0>>,
 <<"NEGA", <<64>>, NA, NA, NA, NA, NA, 0>>,
 <<"NEGB", <<80>>, NA, NA, NA, NA, NA, 0>>,
 <<"NOP",  <<18>>, NA, NA, NA, NA, NA, 0>>,
 <<"ORA",  NA, <<138>>, <<154>>, <<170>>, <<186>>, NA, 1>>,
 <<"ORB",  NA, <<202>>, <<218>>, <<234>>, <<250>>, NA, 1>>,
 <<"ORCC", NA, <<26>>, NA, NA, NA, NA, 1>>,
 <<"PSHS", NA, <<52>>, NA, NA, NA, NA, 1>>,
 <<"PSHU", NA, <<54>>, NA, NA, NA, NA, 1>>,
 <<"PULS", NA, <<53>>, NA, NA, NA, NA, 1>>,
 <<"PULU", NA, <<55>>, NA, NA, NA, NA, 1>>,
 <<"ROL",  NA, NA, <<9>>,  <<105>>, <<121>>, NA, 0>>,
 <<"ROLA", <<73>>, NA, NA, NA, NA, NA, 0>>,
 <<"ROLB", <<89>>, NA, NA, NA, NA, NA, 0>>,
 <<"ROR",  NA, NA, <<6>>,  <<102>>, <<118>>, NA, 0>>,
 <<"RORA", <<70>>, NA, NA, NA, NA, NA, 0>>,
 <<"RORB", <<86>>, NA, NA, NA, NA, NA, 0>>,
 <<"RTI",  <<59>>, NA, NA, NA, NA, NA, 0>>,
 <<"RTS",  <<57>>, NA, NA, NA, NA, NA, 0>>,
 <<"SBCA", NA, <<130>>, <<146>>, <<162>>, <<178>>, NA, 1>>,
 <<"SBCB", NA, <<194>>, <<210>>, <<226>>, <<242>>, NA, 1>>,
 <<"SEX",  <<29>>, NA, NA, NA, NA, NA, 0>>,
 <<"STA",  NA, NA, <<151>>, <<167>>, <<183>>, NA, 0>>,
 <<"STB",  NA, NA, <<215>>, <<231>>, <<247>>, NA, 0>>,
 <<"STD",  NA, NA, <<221>>, <<237>>, <<253>>, NA, 0>>,
 <<"STS",  NA, NA, <<16,223>>, <<16,239>>, <<16,255>>, NA, 0>>,
 <<"STU",  NA, NA, <<223>>, <<239>>, <<255>>, NA, 0>>,
 <<"STX",  NA, NA, <<159>>, <<175>>, <<191>>, NA, 0>>,
 <<"STY",  NA, NA, <<16,159>>, <<16,175>>, <<16,191>>, NA, 0>>,
 <<"SUBA", NA, <<128>>, <<144>>, <<160>>, <<176>>, NA, 1>>,
 <<"SUBB", NA, <<192>>, <<208>>, <<224>>, <<240>>, NA, 1>>,
 <<"SUBD", NA, <<131>>, <<147>>, <<163>>, <<179>>, NA, 2>>,
 <<"SWI",  <<63>>, NA, NA, NA, NA, NA, 0>>,
 <<"SWI2", <<16,63>>, NA, NA, NA, NA, NA, 0>>,
 <<"SWI3", <<17,63>>, NA, NA, NA, NA, NA, 0>>,
 <<"SYNC", <<19>>, NA, NA, NA, NA, NA, 0>>,
 <<"TFR",  NA, <<31>>, NA, NA, NA, NA, 1>>,
 <<"TST",  NA, NA, <<13>>, <<109>>, <<125>>, NA, 0>>,
 <<"TSTA", <<77>>, NA, NA, NA, NA, NA, 0>>,
 <<"TSTB", <<93>>, NA, NA, NA, NA, NA, 0>>,
 \* short branches (relative, 8-bit)
 <<"BRA", NA,NA,NA,NA,NA, <<32>>, 0>>, <<"BRN", NA,NA,NA,NA,NA, <<33>>, 0>>, <<"BHI", NA,NA,NA,NA,NA, <<34>>, 0>>,
 <<"BLS", NA,NA,NA,NA,NA, <<35>>, 0>>, <<"BCC", NA,NA,NA,NA,NA, <<36>>, 0>>, <<"BHS", NA,NA,NA,NA,NA, <<36>>, 0>>,
 <<"BCS", NA,NA,NA,NA,NA, <<37>>, 0>>, <<"BLO", NA,NA,NA,NA,NA, <<37>>, 0>>, <<"BNE", NA,NA,NA,NA,NA, <<38>>, 0>>,
 <<"BEQ", NA,NA,NA,NA,NA, <<39>>, 0>>, <<"BVC", NA,NA,NA,NA,NA, <<40>>, 0>>, <<"BVS", NA,NA,NA,NA,NA, <<41>>, 0>>,
 <<"BPL", NA,NA,NA,NA,NA, <<42>>, 0>>, <<"BMI", NA,NA,NA,NA,NA, <<43>>, 0>>, <<"BGE", NA,NA,NA,NA,NA, <<44>>, 0>>,
 <<"BLT", NA,NA,NA,NA,NA, <<45>>, 0>>, <<"BGT", NA,NA,NA,NA,NA, <<46>>, 0>>, <<"BLE", NA,NA,NA,NA,NA, <<47>>, 0>>,
 <<"BSR", NA,NA,NA,NA,NA, <<141>>, 0>>,
 \* long branches (relative, 16-bit)
 <<"LBRA", NA,NA,NA,NA,NA, <<22>>, 0>>, <<"LBSR", NA,NA,NA,NA,NA, <<23>>, 0>>,
 <<"LBRN", NA,NA,NA,NA,NA, <<16,33>>, 0>>, <<"LBHI", NA,NA,NA,NA,NA, <<16,34>>, 0>>, <<"LBLS", NA,NA,NA,NA,NA, <<16,35>>, 0>>,
 <<"LBCC", NA,NA,NA,NA,NA, <<16,36>>, 0>>, <<"LBHS", NA,NA,NA,NA,NA, <<16,36>>, 0>>, <<"LBCS", NA,NA,NA,NA,NA, <<16,37>>, 0>>,
 <<"LBLO", NA,NA,NA,NA,NA, <<16,37>>, 0>>, <<"LBNE", NA,NA,NA,NA,NA, <<16,38>>, 0>>, <<"LBEQ", NA,NA,NA,NA,NA, <<16,39>>, 0>>,
 <<"LBVC", NA,NA,NA,NA,NA, <<16,40>>, 0>>, <<"LBVS", NA,NA,NA,NA,NA, <<16,41>>, 0>>, <<"LBPL", NA,NA,NA,NA,NA, <<16,42>>, 0>>,
 <<"LBMI", NA,NA,NA,NA,NA, <<16,43>>, 0>>, <<"LBGE", NA,NA,NA,NA,NA, <<16,44>>, 0>>, <<"LBLT", NA,NA,NA,NA,NA, <<16,45>>, 0>>,
 <<"LBGT", NA,NA,NA,NA,NA, <<16,46>>, 0>>, <<"LBLE", NA,NA,NA,NA,NA, <<16,47>>, 0>> >>

Mnemonics == {OpRows[k][1] : k \in DOMAIN OpRows}
RowOf(mn) == OpRows[CHOOSE k \in DOMAIN OpRows : OpRows[k][1] = mn]
OpTable == [mn \in Mnemonics |-> LET r == RowOf(mn) IN
              [inh |-> r[2], imm |-> r[3], dir |-> r[4], ind |-> r[5], ext |-> r[6], rel |-> r[7], iw |-> r[8]]]
ShortBranches == {mn \in Mnemonics : OpTable[mn].rel # NA /\ (mn = "BSR" \/ (Len(OpTable[mn].rel) = 1 /\ OpTable[mn].rel[1] \in 32..47))}
LongBranches  == {mn \in Mnemonics : OpTable[mn].rel # NA} \ ShortBranches
StackOps == {"PSHS", "PSHU", "PULS", "PULU"}
PairOps == {"TFR", "EXG"}

\* ---------------------------------------------------------------- by opcode
\* One row of 16 cells per high nibble; "-" = no instruction.  Mode of a row/cell given separately.
Un == "-"
Page1 == <<
 <<"NEG",Un,Un,"COM","LSR",Un,"ROR","ASR","ASL","ROL","DEC",Un,"INC","TST","JMP","CLR">>,                     \* 0x  direct
 <<"page2","page3","NOP","SYNC",Un,Un,"LBRA","LBSR",Un,"DAA","ORCC",Un,"ANDCC","SEX","EXG","TFR">>,          \* 1x
 <<"BRA","BRN","BHI","BLS","BCC","BCS","BNE","BEQ","BVC","BVS","BPL","BMI","BGE","BLT","BGT","BLE">>,     \* 2x  relative
 <<"LEAX","LEAY","LEAS","LEAU","PSHS","PULS","PSHU","PULU",Un,"RTS","ABX","RTI","CWAI","MUL",Un,"SWI">>,    \* 3x
 <<"NEGA",Un,Un,"COMA","LSRA",Un,"RORA","ASRA","ASLA","ROLA","DECA",Un,"INCA","TSTA",Un,"CLRA">>,              \* 4x  inherent
 <<"NEGB",Un,Un,"COMB","LSRB",Un,"RORB","ASRB","ASLB","ROLB","DECB",Un,"INCB","TSTB",Un,"CLRB">>,              \* 5x  inherent
 <<"NEG",Un,Un,"COM","LSR",Un,"ROR","ASR","ASL","ROL","DEC",Un,"INC","TST","JMP","CLR">>,                     \* 6x  indexed
 <<"NEG",Un,Un,"COM","LSR",Un,"ROR","ASR","ASL","ROL","DEC",Un,"INC","TST","JMP","CLR">>,                     \* 7x  extended
 <<"SUBA","CMPA","SBCA","SUBD","ANDA","BITA","LDA",Un,"EORA","ADCA","ORA","ADDA","CMPX","BSR","LDX",Un>>,   \* 8x  immediate
 <<"SUBA","CMPA","SBCA","SUBD","ANDA","BITA","LDA","STA","EORA","ADCA","ORA","ADDA","CMPX","JSR","LDX","STX">>, \* 9x direct
 <<"SUBA","CMPA","SBCA","SUBD","ANDA","BITA","LDA","STA","EORA","ADCA","ORA","ADDA","CMPX","JSR","LDX","STX">>, \* Ax indexed
 <<"SUBA","CMPA","SBCA","SUBD","ANDA","BITA","LDA","STA","EORA","ADCA","ORA","ADDA","CMPX","JSR","LDX","STX">>, \* Bx extended
 <<"SUBB","CMPB","SBCB","ADDD","ANDB","BITB","LDB",Un,"EORB","ADCB","ORB","ADDB","LDD",Un,"LDU",Un>>,        \* Cx  immediate
 <<"SUBB","CMPB","SBCB","ADDD","ANDB","BITB","LDB","STB","EORB","ADCB","ORB","ADDB","LDD","STD","LDU","STU">>, \* Dx direct
 <<"SUBB","CMPB","SBCB","ADDD","ANDB","BITB","LDB","STB","EORB","ADCB","ORB","ADDB","LDD","STD","LDU","STU">>, \* Ex indexed
 <<"SUBB","CMPB","SBCB","ADDD","ANDB","BITB","LDB","STB","EORB","ADCB","ORB","ADDB","LDD","STD","LDU","STU">> >> \* Fx extended
RowMode1 == <<"dir","x1","rel","x3","inh","inh","ind","ext","imm","dir","ind","ext","imm","dir","ind","ext">>
\* irregular cells of rows 1x and 3x
Cell1Mode(b) ==
  CASE b \in {18,19,25,29} -> "inh"            \* NOP SYNC DAA SEX
    [] b \in {22,23} -> "rel16"                \* LBRA LBSR
    [] b \in {26,28} -> "imm"                  \* ORCC ANDCC
    [] b \in {30,31} -> "pair"                 \* EXG TFR
    [] b \in 48..51 -> "ind"                   \* LEA
    [] b \in 52..55 -> "stack"                 \* PSH/PUL
    [] b \in {57,58,59,61,63} -> "inh"         \* RTS ABX RTI MUL SWI
    [] b = 60 -> "imm"                         \* CWAI
    [] OTHER -> "none"
\* page 2 ($10) and page 3 ($11): sparse
Page2 == [b \in Byte |->
  CASE b = 33 -> "LBRN" [] b = 34 -> "LBHI" [] b = 35 -> "LBLS" [] b = 36 -> "LBCC" [] b = 37 -> "LBCS"
    [] b = 38 -> "LBNE" [] b = 39 -> "LBEQ" [] b = 40 -> "LBVC" [] b = 41 -> "LBVS" [] b = 42 -> "LBPL"
    [] b = 43 -> "LBMI" [] b = 44 -> "LBGE" [] b = 45 -> "LBLT" [] b = 46 -> "LBGT" [] b = 47 -> "LBLE"
    [] b = 63 -> "SWI2"
    [] b \in {131,147,163,179} -> "CMPD" [] b \in {140,156,172,188} -> "CMPY" [] b \in {142,158,174,190} -> "LDY"
    [] b \in {159,175,191} -> "STY" [] b \in {206,222,238,254} -> "LDS" [] b \in {223,239,255} -> "STS"
    [] OTHER -> Un]
Page3 == [b \in Byte |->
  CASE b = 63 -> "SWI3" [] b \in {131,147,163,179} -> "CMPU" [] b \in {140,156,172,188} -> "CMPS" [] OTHER -> Un]
PageMode(b) == CASE b \in 33..47 -> "rel16" [] b = 63 -> "inh"
                 [] b \in 128..143 \/ b \in 192..207 -> "imm" [] b \in 144..159 \/ b \in 208..223 -> "dir"
                 [] b \in 160..175 \/ b \in 224..239 -> "ind" [] b \in 176..191 \/ b \in 240..255 -> "ext"
                 [] OTHER -> "none"
Aliases(mn) == CASE mn = "ASL" -> {"ASL","LSL"} [] mn = "ASLA" -> {"ASLA","LSLA"} [] mn = "ASLB" -> {"ASLB","LSLB"}
                 [] mn = "BCC" -> {"BCC","BHS"} [] mn = "BCS" -> {"BCS","BLO"}
                 [] mn = "LBCC" -> {"LBCC","LBHS"} [] mn = "LBCS" -> {"LBCS","LBLO"} [] OTHER -> {mn}
Wide16 == {"SUBD","ADDD","CMPX","LDX","LDD","LDU","CMPD","CMPY","LDY","LDS","CMPU","CMPS"}
\* DecodeMap[page][b] = [mns, mode]; mode in inh imm dir ind ext rel rel16 pair stack none
DecodeMap ==
  [page \in {0,16,17} |-> [b \in Byte |->
     IF page = 0 THEN
        LET name == Page1[(b \div 16) + 1][(b % 16) + 1]
            rm == RowMode1[(b \div 16) + 1]
            mode == IF name = Un \/ name \in {"page2","page3"} THEN "none"
                    ELSE IF rm \in {"x1","x3"} THEN Cell1Mode(b)
                    ELSE IF b = 141 THEN "rel" ELSE rm
        IN [mns |-> IF mode = "none" THEN {} ELSE Aliases(name), mode |-> mode]
     ELSE LET name == IF page = 16 THEN Page2[b] ELSE Page3[b]
              mode == IF name = Un THEN "none" ELSE PageMode(b)
          IN [mns |-> IF mode = "none" THEN {} ELSE Aliases(name), mode |-> mode]]]

\* ---------------------------------------------------------------- helpers
U16(v) == IF v < 0 THEN v + 65536 ELSE v % 65536
U8(v)  == IF v < 0 THEN v + 256 ELSE v % 256
W16(v) == <<U16(v) \div 256, U16(v) % 256>>
S8(b)  == IF b >= 128 THEN b - 256 ELSE b
S16(w) == IF w >= 32768 THEN w - 65536 ELSE w
IdxRegs == {"X","Y","U","S"}
RR == [X |-> 0, Y |-> 32, U |-> 64, S |-> 96]
RRinv(pb) == CASE (pb \div 32) % 4 = 0 -> "X" [] (pb \div 32) % 4 = 1 -> "Y" [] (pb \div 32) % 4 = 2 -> "U" [] OTHER -> "S"
Regs == {"D","X","Y","U","S","PC","A","B","CC","DP"}
RegCode == [D |-> 0, X |-> 1, Y |-> 2, U |-> 3, S |-> 4, PC |-> 5, A |-> 8, B |-> 9, CC |-> 10, DP |-> 11]
Reg16 == {"D","X","Y","U","S","PC"}
\* bits a register contributes to a PSH/PUL post-byte; {-1} = not pushable on its own stack (PSHS S / PSHU U)
StackBits(r, own) == CASE r = "CC" -> {1} [] r = "A" -> {2} [] r = "B" -> {4} [] r = "D" -> {2, 4} [] r = "DP" -> {8}
                      [] r = "X" -> {16} [] r = "Y" -> {32} [] r = "PC" -> {128}
                      [] r \in {"U","S"} -> IF r = own THEN {-1} ELSE {64}
                      [] OTHER -> {-1}
RECURSIVE SumOf(_)
SumOf(S) == IF S = {} THEN 0 ELSE LET x == CHOOSE x \in S : TRUE IN x + SumOf(S \ {x})

\* ---------------------------------------------------------------- abstract instructions
\* i = [mn, form, val, force, reg, sub, acc, ind, regs, r1, r2, tgt]
\*   form: "inh" "imm" "mem" "extind" "idx" "pcrn" "pcrl" "rel" "regs" "pair"
\*   sub (for idx): "zero" "off" "acc" "inc1" "inc2" "dec1" "dec2"
OwnStack(mn) == IF mn \in {"PSHS","PULS"} THEN "S" ELSE "U"

IdxPost(i) ==      \* set of <<postbyte>> \o extra
  LET r == RR[i.reg]
      n == IF i.ind THEN 16 ELSE 0
      v == i.val
  IN
  CASE i.sub = "zero" -> {<<128 + r + 4 + n>>}
    [] i.sub = "inc1" -> IF i.ind THEN {} ELSE {<<128 + r + 0>>}
    [] i.sub = "inc2" -> {<<128 + r + 1 + n>>}
    [] i.sub = "dec1" -> IF i.ind THEN {} ELSE {<<128 + r + 2>>}
    [] i.sub = "dec2" -> {<<128 + r + 3 + n>>}
    [] i.sub = "acc"  -> {<<128 + r + n + (CASE i.acc = "A" -> 6 [] i.acc = "B" -> 5 [] OTHER -> 11)>>}
    [] i.sub = "off"  ->
         (IF v = 0 THEN {<<128 + r + 4 + n>>} ELSE {})
         \cup (IF v \in -16..15 /\ ~i.ind THEN {<<r + (IF v < 0 THEN v + 32 ELSE v)>>} ELSE {})
         \cup (IF v \in -128..127 THEN {<<128 + r + 8 + n, U8(v)>>} ELSE {})
         \cup (IF v \in -32768..65535 THEN {<<128 + r + 9 + n>> \o W16(v)} ELSE {})
    [] OTHER -> {}

\* ctx = [addr, dp]
Encodings(i, ctx) ==
  LET t == OpTable[i.mn] IN
  CASE i.form = "inh" -> IF t.inh = NA THEN {} ELSE {t.inh}
    [] i.form = "imm" -> IF t.imm = NA \/ i.mn \in StackOps \cup PairOps THEN {}
                         ELSE IF t.iw = 1 THEN (IF i.val \in -128..255 THEN {t.imm \o <<U8(i.val)>>} ELSE {})
                         ELSE (IF i.val \in -32768..65535 THEN {t.imm \o W16(i.val)} ELSE {})
    [] i.form = "mem" ->
         LET v == i.val
             d == IF t.dir # NA /\ v \in 0..65535 /\ ((i.force = "<" /\ v <= 255) \/ (i.force = "" /\ v \div 256 = ctx.dp))
                  THEN {t.dir \o <<v % 256>>} ELSE {}
             e == IF t.ext # NA /\ v \in 0..65535 /\ i.force # "<" THEN {t.ext \o W16(v)} ELSE {}
         IN d \cup e
    [] i.form = "extind" -> IF t.ind = NA \/ i.val \notin 0..65535 THEN {} ELSE {t.ind \o <<159>> \o W16(i.val)}
    [] i.form = "idx" -> IF t.ind = NA THEN {} ELSE {t.ind \o p : p \in IdxPost(i)}
    [] i.form = "pcrn" -> IF t.ind = NA THEN {} ELSE
         LET n == IF i.ind THEN 16 ELSE 0 IN
         (IF i.val \in -128..127 THEN {t.ind \o <<140 + n, U8(i.val)>>} ELSE {})
         \cup (IF i.val \in -32768..65535 THEN {t.ind \o <<141 + n>> \o W16(i.val)} ELSE {})
    [] i.form = "pcrl" -> IF t.ind = NA THEN {} ELSE
         LET n == IF i.ind THEN 16 ELSE 0
             d8 == S16((i.tgt - (ctx.addr + Len(t.ind) + 2)) % 65536)
             d16 == (i.tgt - (ctx.addr + Len(t.ind) + 3)) % 65536
         IN (IF d8 \in -128..127 THEN {t.ind \o <<140 + n, U8(d8)>>} ELSE {}) \cup {t.ind \o <<141 + n>> \o W16(d16)}
    [] i.form = "rel" -> IF t.rel = NA THEN {} ELSE
         IF i.mn \in ShortBranches
         THEN LET d == S16((i.tgt - (ctx.addr + 2)) % 65536) IN IF d \in -128..127 THEN {t.rel \o <<U8(d)>>} ELSE {}
         ELSE {t.rel \o W16((i.tgt - (ctx.addr + Len(t.rel) + 2)) % 65536)}
    [] i.form = "regs" -> IF i.mn \notin StackOps \/ i.regs = {} THEN {} ELSE
         LET bits == UNION {StackBits(r, OwnStack(i.mn)) : r \in i.regs}
         IN IF -1 \in bits THEN {} ELSE {t.imm \o <<SumOf(bits)>>}
    [] i.form = "pair" -> IF i.mn \notin PairOps \/ ((i.r1 \in Reg16) # (i.r2 \in Reg16)) THEN {}
                          ELSE {t.imm \o <<RegCode[i.r1] * 16 + RegCode[i.r2]>>}
    [] OTHER -> {}

\* ---------------------------------------------------------------- decoder (total on Seq(Byte))
IdxDecode(pb, rest) ==   \* rest = bytes after the post-byte
  IF pb < 128 THEN [ok |-> TRUE, reg |-> RRinv(pb), sub |-> "off", ind |-> FALSE, val |-> (IF (pb % 32) >= 16 THEN (pb % 32) - 32 ELSE (pb % 32)), pcr |-> FALSE, n |-> 0, acc |-> ""]
  ELSE LET m == pb % 16
           ind == ((pb \div 16) % 2) = 1
           reg == RRinv(pb)
           R(sub, val, n, acc, pcr) == [ok |-> TRUE, reg |-> reg, sub |-> sub, ind |-> ind, val |-> val, pcr |-> pcr, n |-> n, acc |-> acc]
           Bad == [ok |-> FALSE, reg |-> reg, sub |-> "bad", ind |-> ind, val |-> 0, pcr |-> FALSE, n |-> 0, acc |-> ""]
       IN CASE m = 0 -> IF ind THEN Bad ELSE R("inc1", 0, 0, "", FALSE)
            [] m = 1 -> R("inc2", 0, 0, "", FALSE)
            [] m = 2 -> IF ind THEN Bad ELSE R("dec1", 0, 0, "", FALSE)
            [] m = 3 -> R("dec2", 0, 0, "", FALSE)
            [] m = 4 -> R("zero", 0, 0, "", FALSE)
            [] m = 5 -> R("acc", 0, 0, "B", FALSE)
            [] m = 6 -> R("acc", 0, 0, "A", FALSE)
            [] m = 8 -> IF Len(rest) < 1 THEN Bad ELSE R("off", S8(rest[1]), 1, "", FALSE)
            [] m = 9 -> IF Len(rest) < 2 THEN Bad ELSE R("off", S16(rest[1] * 256 + rest[2]), 2, "", FALSE)
            [] m = 11 -> R("acc", 0, 0, "D", FALSE)
            [] m = 12 -> IF Len(rest) < 1 THEN Bad ELSE R("off", S8(rest[1]), 1, "", TRUE)
            [] m = 13 -> IF Len(rest) < 2 THEN Bad ELSE R("off", S16(rest[1] * 256 + rest[2]), 2, "", TRUE)
            [] m = 15 -> IF pb = 159 /\ Len(rest) >= 2 THEN R("extind", rest[1] * 256 + rest[2], 2, "", FALSE) ELSE Bad
            [] OTHER -> Bad

NoDec == [ok |-> FALSE, mns |-> {}, mode |-> "none", len |-> 0, val |-> 0, idx |-> IdxDecode(132, <<>>)]
Decode(bs) ==
  IF Len(bs) = 0 THEN NoDec ELSE
  LET paged == bs[1] \in {16, 17}
      page == IF paged THEN bs[1] ELSE 0
      k == IF paged THEN 2 ELSE 1                       \* index of the opcode byte
  IN IF Len(bs) < k THEN NoDec ELSE
  LET e == DecodeMap[page][bs[k]]
      rest == SubSeq(bs, k + 1, Len(bs))
      wide == \E mn \in e.mns : mn \in Wide16 \/ mn \in {"LDS"}
      D(len, val, idx) == [ok |-> len <= Len(bs), mns |-> e.mns, mode |-> e.mode, len |-> len, val |-> val, idx |-> idx]
      noidx == IdxDecode(132, <<>>)
  IN CASE e.mode = "none" -> NoDec
       [] e.mode = "inh" -> D(k, 0, noidx)
       [] e.mode = "imm" -> IF wide THEN (IF Len(rest) >= 2 THEN D(k + 2, rest[1] * 256 + rest[2], noidx) ELSE D(k + 2, 0, noidx))
                            ELSE (IF Len(rest) >= 1 THEN D(k + 1, rest[1], noidx) ELSE D(k + 1, 0, noidx))
       [] e.mode \in {"pair", "stack"} -> IF Len(rest) >= 1 THEN D(k + 1, rest[1], noidx) ELSE D(k + 1, 0, noidx)
       [] e.mode \in {"dir", "rel"} -> IF Len(rest) >= 1 THEN D(k + 1, rest[1], noidx) ELSE D(k + 1, 0, noidx)
       [] e.mode \in {"ext", "rel16"} -> IF Len(rest) >= 2 THEN D(k + 2, rest[1] * 256 + rest[2], noidx) ELSE D(k + 2, 0, noidx)
       [] e.mode = "ind" -> IF Len(rest) < 1 THEN D(k + 1, 0, noidx)
                            ELSE LET x == IdxDecode(rest[1], SubSeq(rest, 2, Len(rest)))
                                 IN IF x.ok THEN D(k + 1 + x.n, x.val, x) ELSE [D(k + 1, 0, x) EXCEPT !.ok = FALSE]
       [] OTHER -> NoDec

\* does decoding e give back instruction i (up to CPU-indistinguishable choices)?
Same(i, ctx, e) ==
  LET d == Decode(e) IN
  /\ d.ok /\ d.len = Len(e) /\ i.mn \in d.mns
  /\ CASE i.form = "inh" -> d.mode = "inh"
       [] i.form = "imm" -> d.mode = "imm" /\ d.val = (IF OpTable[i.mn].iw = 1 THEN U8(i.val) ELSE U16(i.val))
       [] i.form = "mem" -> (d.mode = "dir" /\ ctx.dp * 256 + d.val = i.val /\ i.force # ">") \/ (d.mode = "dir" /\ i.force = "<" /\ d.val = i.val % 256)
                            \/ (d.mode = "ext" /\ d.val = i.val /\ i.force # "<")
       [] i.form = "extind" -> d.mode = "ind" /\ d.idx.sub = "extind" /\ d.val = i.val
       [] i.form = "idx" -> d.mode = "ind" /\ ~d.idx.pcr /\ d.idx.reg = i.reg /\ d.idx.ind = i.ind /\
                            (CASE i.sub = "off" -> (d.idx.sub = "off" /\ U16(d.idx.val) = U16(i.val)) \/ (d.idx.sub = "zero" /\ i.val = 0)
                               [] i.sub = "acc" -> d.idx.sub = "acc" /\ d.idx.acc = i.acc
                               [] OTHER -> d.idx.sub = i.sub)
       [] i.form = "pcrn" -> d.mode = "ind" /\ d.idx.pcr /\ d.idx.ind = i.ind /\ U16(d.idx.val) = U16(i.val)
       [] i.form = "pcrl" -> d.mode = "ind" /\ d.idx.pcr /\ d.idx.ind = i.ind /\ (ctx.addr + Len(e) + d.idx.val) % 65536 = i.tgt
       [] i.form = "rel" -> (d.mode = "rel" /\ (ctx.addr + Len(e) + S8(d.val)) % 65536 = i.tgt)
                            \/ (d.mode = "rel16" /\ (ctx.addr + Len(e) + d.val) % 65536 = i.tgt)
       [] i.form = "regs" -> d.mode = "stack"
       [] i.form = "pair" -> d.mode = "pair" /\ d.val = RegCode[i.r1] * 16 + RegCode[i.r2]
       [] OTHER -> FALSE

\* ---------------------------------------------------------------- class lattice (unit of coverage and of known findings)
ValClass(v) == CASE v = 0 -> "0" [] v \in 1..15 -> "1..15" [] v \in 16..127 -> "16..127" [] v \in 128..255 -> "128..255"
                 [] v \in 256..4095 -> "256..4095" [] v \in 4096..32767 -> "4096..32767" [] v \in 32768..65535 -> "32768..65535"
                 [] v > 65535 -> ">65535"
                 [] v \in -16..-1 -> "-1..-16" [] v \in -128..-17 -> "-17..-128" [] v \in -32768..-129 -> "-129..-32768" [] OTHER -> "<-32768"
MnClass(mn) ==
   IF mn \notin Mnemonics THEN "pseudo" ELSE
   LET t == OpTable[mn]  p2 == \E f \in {t.inh, t.imm, t.dir, t.ind, t.ext, t.rel} : Len(f) = 2 IN
   CASE mn \in StackOps -> "pshpul" [] mn \in PairOps -> "tfrexg"
     [] t.inh # NA -> "inh" [] mn \in ShortBranches -> "shortbr" [] t.rel # NA -> "longbr"
     [] t.imm # NA /\ t.dir = NA -> "imm8only"
     [] t.imm # NA /\ t.iw = 2 -> IF p2 THEN "alu16p2" ELSE "alu16"
     [] t.imm # NA -> "alu8"
     [] t.dir = NA -> "lea"
     [] mn \in {"STA","STB"} -> "st8" [] mn \in {"STD","STX","STU"} -> "st16" [] mn \in {"STY","STS"} -> "st16p2"
     [] mn \in {"JMP","JSR"} -> "jmp" [] OTHER -> "rmw"
=============================================================================
