SPECIFICATION Spec3
INVARIANT CertOK
INVARIANT MustOK
INVARIANT LayoutInv
INVARIANT ReachInv
INVARIANT Bounded
CHECK_DEADLOCK FALSE
