SPECIFICATION Spec
CONSTANTS Depth = 2
 Cap = 3
INVARIANT PropInv
INVARIANT NeverLost
INVARIANT SamePathTwice
CHECK_DEADLOCK FALSE
