------------------------------ MODULE Gen_C04 ------------------------------
(* Case export for C04: every operand position x {symbol, number} op {symbol, number}, with symbols that are
   EQU constants (defined before / after use, several magnitudes and spellings) or labels (before / after use),
   in a fixed frame:  KB EQU a / ORG base / LB NOP / L1 NOP / <statement under test> / L2 NOP / LA NOP / KA EQU b   *)
EXTENDS Asm, Json, IOUtils
NoT == [k |-> "none", n |-> 0, s |-> "", sp |-> ""]
N(v, sp) == [k |-> "num", n |-> v, s |-> "", sp |-> sp]
Sy(s) == [k |-> "sym", n |-> 0, s |-> s, sp |-> ""]
E1(t) == [l |-> t, op |-> "", r |-> NoT]
E2(a, op, b) == [l |-> a, op |-> op, r |-> b]
S0 == [label |-> "", mn |-> "NOP", form |-> "inh", force |-> "", reg |-> "X", sub |-> "zero", acc |-> "A", ind |-> FALSE,
       regs |-> <<>>, r1 |-> "D", r2 |-> "D", expr |-> E1(NoT), vals |-> <<>>, chars |-> <<>>]
Thorough == IOEnv.TIER = "thorough"
Nums == IF Thorough THEN {<<0,"dec">>, <<1,"dec">>, <<2,"hex2">>, <<5,"bin8">>, <<16,"hex">>, <<255,"dec">>, <<256,"hex4">>, <<257,"dec">>, <<32767,"dec">>, <<32768,"hex">>, <<65535,"hex4">>, <<65,"char">>}
        ELSE {<<0,"dec">>, <<2,"hex2">>, <<5,"dec">>, <<255,"dec">>, <<256,"hex4">>, <<32768,"hex">>, <<65535,"dec">>}
\* (negative EQU constants too: a symbol stands for its defined constant, sign included)
EquVals == IF Thorough THEN {<<2,"dec">>, <<5,"hex2">>, <<255,"hex2">>, <<256,"hex4">>, <<4660,"hex">>, <<65535,"hex4">>, <<16,"hex4">>, <<-5,"dec">>, <<-129,"dec">>}
           ELSE {<<5,"hex2">>, <<256,"hex4">>, <<16,"hex4">>, <<-5,"dec">>}
Bases == {16, 3584}
Terms == {N(x[1], x[2]) : x \in Nums} \cup {Sy("KB"), Sy("KA"), Sy("LB"), Sy("LA")}
Ops == {"+", "-", "*", "/"}
Exprs == {E1(t) : t \in Terms} \cup {E2(a, o, b) : a \in Terms, o \in Ops, b \in Terms}
Under(pos, e) ==
  CASE pos = "imm8"   -> [S0 EXCEPT !.mn = "LDA", !.form = "imm", !.expr = e]
    [] pos = "imm16"  -> [S0 EXCEPT !.mn = "LDX", !.form = "imm", !.expr = e]
    [] pos = "mem"    -> [S0 EXCEPT !.mn = "STA", !.form = "mem", !.expr = e]
    [] pos = "extind" -> [S0 EXCEPT !.mn = "JMP", !.form = "extind", !.expr = e]
    [] pos = "idxoff" -> [S0 EXCEPT !.mn = "LDB", !.form = "idx", !.sub = "off", !.reg = "Y", !.expr = e]
    [] pos = "pcr"    -> [S0 EXCEPT !.mn = "LEAX", !.form = "pcr", !.expr = e]
    [] pos = "rel"    -> [S0 EXCEPT !.mn = "LBRA", !.form = "rel", !.expr = e]
    [] pos = "fcb"    -> [S0 EXCEPT !.mn = "FCB", !.form = "fcb", !.vals = <<e>>]
    [] pos = "fdb"    -> [S0 EXCEPT !.mn = "FDB", !.form = "fdb", !.vals = <<e, E1(N(1, "dec"))>>]
    [] pos = "rmb"    -> [S0 EXCEPT !.mn = "RMB", !.form = "rmb", !.expr = e]
    [] OTHER          -> [S0 EXCEPT !.mn = "EQU", !.form = "equ", !.label = "Q", !.expr = e]
Positions == {"imm8", "imm16", "mem", "extind", "idxoff", "pcr", "rel", "fcb", "fdb", "rmb", "equ"}
HasLab(e) == {"LB", "LA"} \cap SymsOfE(e) # {}
\* keep the space meaningful: RMB of a label-sized count is excluded (65 KB of zeros per case), branches need a label
Keep(pos, e) == /\ (pos = "rmb" => ~HasLab(e) /\ (e.op # "*"))
                /\ (pos = "rel" => HasLab(e) /\ e.op \in {"", "+", "-"})
Prog(pos, e, ka, kb, base) ==
  << [S0 EXCEPT !.mn = "EQU", !.form = "equ", !.label = "KB", !.expr = E1(N(kb[1], kb[2]))],
     [S0 EXCEPT !.mn = "ORG", !.form = "org", !.expr = E1(N(base, "hex4"))],
     [S0 EXCEPT !.label = "LB"], [S0 EXCEPT !.label = "L1"],
     Under(pos, e),
     [S0 EXCEPT !.label = "L2"], [S0 EXCEPT !.label = "LA"],
     [S0 EXCEPT !.mn = "EQU", !.form = "equ", !.label = "KA", !.expr = E1(N(ka[1], ka[2]))] >>
NP == atoi(IOEnv.NPARTS)
PART == atoi(IOEnv.PART)
PosSeq == SetToSeq(Positions)
MyPos == {PosSeq[k] : k \in {j \in DOMAIN PosSeq : j % NP = PART}}
\* quick: every expression shape at one EQU value pair and both bases; thorough: all EQU value pairs
KPairs == IF Thorough THEN EquVals \X EquVals ELSE {<<x, x>> : x \in EquVals}
Sel == {<<pos, e, kp, b>> \in MyPos \X Exprs \X KPairs \X Bases : Keep(pos, e)}
Out2 == SetToSeq({[prog |-> Prog(x[1], x[2], x[3][1], x[3][2], x[4]), focus |-> 5] : x \in Sel})
VARIABLE x
Init == x = 0 /\ ndJsonSerialize(IOEnv.OUT_FILE, Out2) /\ PrintT(<<"cases", Len(Out2)>>)
Next == UNCHANGED x
Spec == Init /\ [][Next]_x
=============================================================================
