------------------------------- MODULE Asm -------------------------------
(* The assembler, seen from outside: abstract statements, the value of operands,   *)
(* the set of byte strings each statement may legally produce at a given address   *)
(* under a given symbol environment, and the CERTIFICATE that a recorded assembly  *)
(* (listing addresses, per-statement bytes, image, symbol table, origin, outcome)  *)
(* must satisfy.  Local consistency of every statement against the environment the *)
(* listing itself claims implies global correctness of the layout fixpoint,        *)
(* whatever algorithm found it.  A reference layout (monotone widening) decides    *)
(* whether a program that was REJECTED had to be accepted.                         *)
(*                                                                                 *)
(* stmt = [label, mn, form, force, reg, sub, acc, ind, regs, r1, r2, expr, vals, chars]
   form : inh imm mem extind idx pcr rel regs pair | fcb fdb fcc rmb org equ setdp nam end include
   expr = [l, op, r]      term = [k, n, s, sp]   k in {"num","sym","none"}; sp = spelling tag (classification only)
   obs  = [addr, bytes] per statement                                              *)
EXTENDS M6809

Pseudo == {"FCB","FDB","FCC","RMB","ORG","EQU","SETDP","NAM","END","INCLUDE"}
NonEmitting == {"ORG","EQU","SETDP","NAM","END","INCLUDE"}

\* ------------------------------------------------------------------ expressions
Err(w) == [ok |-> FALSE, v |-> 0, ovf |-> FALSE, why |-> w]
Val(v) == [ok |-> TRUE, v |-> v, ovf |-> FALSE, why |-> ""]
\* env : function from symbol names to integer values
Term(env, t) == IF t.k = "num" THEN Val(t.n)
                ELSE IF t.k = "sym" THEN (IF t.s \in DOMAIN env THEN Val(env[t.s]) ELSE Err("undef"))
                ELSE Err("none")
Abs(a) == IF a < 0 THEN -a ELSE a
Sgn(a) == IF a < 0 THEN -1 ELSE 1
\* TLC integers are 32 bit: form a product only when it fits; otherwise only its low 16 bits, by limbs
MulFits(a, b) == a = 0 \/ b = 0 \/ Abs(a) <= 2000000000 \div Abs(b)
Low16Mul(a, b) == LET x == Abs(a) % 65536
                      y == Abs(b) % 65536
                      lo == (x * (y % 256)) % 65536
                      hi == (((x % 256) * (y \div 256)) % 256) * 256
                      m == (lo + hi) % 65536
                  IN IF Sgn(a) * Sgn(b) < 0 THEN (65536 - m) % 65536 ELSE m
Eval(env, e) ==
  LET a == Term(env, e.l) IN
  IF e.op = "" THEN a ELSE
  LET b == Term(env, e.r) IN
  IF ~a.ok THEN a ELSE IF ~b.ok THEN b ELSE
  CASE e.op = "+" -> Val(a.v + b.v)
    [] e.op = "-" -> Val(a.v - b.v)
    [] e.op = "*" -> IF MulFits(a.v, b.v) THEN Val(a.v * b.v) ELSE [Val(Low16Mul(a.v, b.v)) EXCEPT !.ovf = TRUE]
    [] e.op = "/" -> IF b.v = 0 THEN Err("divzero") ELSE Val(Sgn(a.v) * Sgn(b.v) * (Abs(a.v) \div Abs(b.v)))
    [] OTHER -> Err("op")
SymsOfE(e) == (IF e.l.k = "sym" THEN {e.l.s} ELSE {}) \cup (IF e.op # "" /\ e.r.k = "sym" THEN {e.r.s} ELSE {})
SymsOfS(s) == SymsOfE(s.expr) \cup UNION {SymsOfE(s.vals[j]) : j \in DOMAIN s.vals}

\* ------------------------------------------------------------------ what a statement may assemble to
St(must, encs) == [must |-> must, encs |-> encs]          \* must in {"accept","reject","either"}
RejectSt == St("reject", {})
Instr(s, f, v) == [mn |-> s.mn, form |-> f, val |-> v, force |-> s.force, reg |-> s.reg, sub |-> s.sub, acc |-> s.acc,
                   ind |-> s.ind, regs |-> {s.regs[k] : k \in DOMAIN s.regs}, r1 |-> s.r1, r2 |-> s.r2, tgt |-> v % 65536]
EncAll(i, addr, dps) == UNION {Encodings(i, [addr |-> addr, dp |-> d]) : d \in dps}
RECURSIVE Cat(_)
Cat(ss) == IF ss = <<>> THEN <<>> ELSE Head(ss) \o Cat(Tail(ss))
Zeros(n) == [k \in 1..n |-> 0]

\* labs: the symbols that are statement labels (addresses), as opposed to EQU constants
AcceptableInstr(s, env, addr, dps, labs) ==
  IF s.form = "idx" /\ s.reg \notin IdxRegs THEN RejectSt            \* not an index register
  ELSE IF s.form \in {"inh", "regs", "pair"} \/ (s.form = "idx" /\ s.sub # "off")
  THEN LET E == EncAll(Instr(s, s.form, 0), addr, dps) IN IF E = {} THEN RejectSt ELSE St("accept", E)
  ELSE IF s.form \notin {"imm", "mem", "extind", "idx", "pcr", "rel"} THEN RejectSt
  ELSE
  LET e == Eval(env, s.expr) IN
  IF ~e.ok THEN RejectSt ELSE
  LET t == OpTable[s.mn]
      v == e.v
      f == s.form
      eight == (f = "imm" /\ t.iw # 2) \/ (f = "mem" /\ s.force = "<")
      nat == CASE f = "imm" -> IF t.iw = 2 THEN -32768..65535 ELSE -128..255
               [] f = "mem" -> IF s.force = "<" THEN -128..255 ELSE 0..65535
               [] f \in {"extind", "rel"} -> 0..65535
               [] OTHER -> -32768..65535
      syms == SymsOfE(s.expr)
      kinds == IF f # "pcr" THEN {f}
               ELSE IF syms \cap labs # {} THEN {"pcrl"} ELSE IF syms # {} THEN {"pcrn", "pcrl"} ELSE {"pcrn"}
      E(w) == UNION {EncAll(Instr(s, k, w), addr, dps) : k \in kinds}
  IN IF f = "mem" /\ s.force = "<" /\ v \in -128..-1 THEN (IF E(v + 256) = {} THEN RejectSt ELSE St("either", E(v + 256)))
     ELSE IF v \in nat /\ ~e.ovf THEN (IF E(v) = {} THEN RejectSt ELSE St("accept", E(v)))
     ELSE IF eight THEN RejectSt
     ELSE LET w == v % 65536 IN IF E(w) = {} THEN RejectSt ELSE St("either", E(w))

AcceptableData(s, env) ==
  CASE s.mn \in {"FCB", "FDB"} ->
         LET es == [k \in DOMAIN s.vals |-> Eval(env, s.vals[k])]
             wide == s.mn = "FDB"
             nat == IF wide THEN -32768..65535 ELSE -128..255
         IN IF Len(s.vals) = 0 \/ \E k \in DOMAIN es : ~es[k].ok \/ (~wide /\ (es[k].v \notin nat \/ es[k].ovf)) THEN RejectSt
            ELSE St(IF \E k \in DOMAIN es : es[k].v \notin nat \/ es[k].ovf THEN "either" ELSE "accept",
                    {Cat([k \in DOMAIN es |-> IF wide THEN W16(es[k].v % 65536) ELSE <<U8(es[k].v)>>])})
    [] s.mn = "FCC" -> St("accept", {s.chars})
    [] s.mn = "RMB" -> LET e == Eval(env, s.expr) IN IF e.ok /\ ~e.ovf /\ e.v \in 0..65535 THEN St("accept", {Zeros(e.v)}) ELSE RejectSt
    [] s.mn \in {"ORG", "EQU", "SETDP"} -> LET e == Eval(env, s.expr) IN
                                          IF ~e.ok THEN RejectSt ELSE IF e.v \in 0..65535 /\ ~e.ovf THEN St("accept", {<<>>}) ELSE St("either", {<<>>})
    [] OTHER -> St("accept", {<<>>})                 \* NAM, END, INCLUDE emit nothing

\* form "raw": free text with no abstract form (fuzzing); only the clauses that need none apply (decodes, reserved, placed, image)
Acceptable(s, env, addr, dps, labs) ==
  IF s.form = "raw" THEN St("raw", {})
  ELSE IF s.mn \in Pseudo THEN AcceptableData(s, env)
  ELSE IF s.mn \notin Mnemonics THEN RejectSt
  ELSE AcceptableInstr(s, env, addr, dps, labs)

\* ------------------------------------------------------------------ program-level facts
Labels(prog) == {prog[k].label : k \in {j \in DOMAIN prog : prog[j].label # "" /\ prog[j].mn # "EQU"}}
Equs(prog) == {prog[k].label : k \in {j \in DOMAIN prog : prog[j].label # "" /\ prog[j].mn = "EQU"}}
Defined(prog) == {prog[k].label : k \in DOMAIN prog} \ {""}
DupAt(prog) == {k \in DOMAIN prog : prog[k].label # "" /\ \E j \in 1..(k - 1) : prog[j].label = prog[k].label}
UndefAt(prog) == {k \in DOMAIN prog : SymsOfS(prog[k]) \ Defined(prog) # {}}
FirstDef(prog, s) == CHOOSE k \in DOMAIN prog : prog[k].label = s /\ \A j \in 1..(k - 1) : prog[j].label # s
\* environment claimed by a layout: label -> address of its statement, EQU -> its value (two rounds, so EQUs may use labels / earlier EQUs)
EnvOf(prog, addrs) ==
  LET labs == Labels(prog)
      e0 == [s \in labs |-> addrs[FirstDef(prog, s)]]
      eqs == Equs(prog) \ labs
      R(env) == LET ok == {s \in eqs : Eval(env, prog[FirstDef(prog, s)].expr).ok} IN
                [s \in labs \cup ok |-> IF s \in labs THEN e0[s] ELSE Eval(env, prog[FirstDef(prog, s)].expr).v]
  IN R(R(R(e0)))
\* assumed direct page per statement: 0 until a SETDP; after SETDP v either reading of the README (v or its high byte), or 0
DpsAt(prog, env, k) ==
  LET ks == {j \in 1..(k - 1) : prog[j].mn = "SETDP"} IN
  IF ks = {} THEN {0}
  ELSE LET j == CHOOSE j \in ks : \A i \in ks : i <= j
           e == Eval(env, prog[j].expr)
       IN IF e.ok THEN {0, e.v % 256, (e.v \div 256) % 256} ELSE {0}
OrgIdx(prog) == {k \in DOMAIN prog : prog[k].mn = "ORG"}
Emits(s) == s.mn \notin NonEmitting
\* "plain": the program can be laid out contiguously from one origin
Plain(prog) == Cardinality(OrgIdx(prog)) <= 1 /\ \A o \in OrgIdx(prog) : \A j \in 1..(o - 1) : ~Emits(prog[j])

\* ------------------------------------------------------------------ reference layout (least fixpoint of sizes)
RECURSIVE AddrFrom(_, _, _, _, _)
AddrFrom(prog, env0, sz, k, cur) ==
  IF k > Len(prog) THEN <<>> ELSE
  LET a == IF prog[k].mn = "ORG" THEN (LET e == Eval(env0, prog[k].expr) IN IF e.ok THEN e.v % 65536 ELSE cur) ELSE cur
  IN <<a>> \o AddrFrom(prog, env0, sz, k + 1, a + sz[k])
MinLen(S) == CHOOSE n \in {Len(e) : e \in S} : \A m \in {Len(e) : e \in S} : n <= m
Max2(a, b) == IF a > b THEN a ELSE b
RECURSIVE Widen(_, _, _)
\* returns [must, sizes, addrs, bad]  (bad = statements that can never be encoded)
Widen(prog, sz, fuel) ==
  LET envq == EnvOf(prog, [k \in DOMAIN prog |-> 0])            \* EQUs only matter for ORG operands
      ad == AddrFrom(prog, envq, sz, 1, 0)
      env == EnvOf(prog, ad)
      labs == Labels(prog)
      st == [k \in DOMAIN prog |-> Acceptable(prog[k], env, ad[k], DpsAt(prog, env, k), labs)]
      bad == {k \in DOMAIN prog : st[k].must = "reject"}
  IN IF bad # {} THEN [must |-> "reject", sizes |-> sz, addrs |-> ad, bad |-> bad]
     ELSE IF \E k \in DOMAIN prog : st[k].must = "raw" THEN [must |-> "either", sizes |-> sz, addrs |-> ad, bad |-> {}]
     ELSE LET nz == [k \in DOMAIN prog |-> Max2(sz[k], MinLen(st[k].encs))] IN
          IF nz = sz THEN [must |-> IF \E k \in DOMAIN prog : st[k].must = "either" THEN "either" ELSE "accept", sizes |-> sz, addrs |-> ad, bad |-> {}]
          ELSE IF fuel = 0 THEN [must |-> "either", sizes |-> sz, addrs |-> ad, bad |-> {}]
          ELSE Widen(prog, nz, fuel - 1)
RefLayout(prog) == Widen(prog, [k \in DOMAIN prog |-> 0], 12)
\* The same iteration taking, for every statement, the LONGEST of its interchangeable encodings (extended where direct would do, 16-bit offsets ...).
\* A program that is valid under the narrowest layout but holds a statement that cannot be encoded under the widest one (a label pushed past $FF
\* that is then used with <, or past a short branch's reach) is accepted or rejected according to width choices the property leaves open: "either".
MaxLen(S) == CHOOSE n \in {Len(e) : e \in S} : \A m \in {Len(e) : e \in S} : n >= m
RECURSIVE WidenMax(_, _, _)
WidenMax(prog, sz, fuel) ==
  LET envq == EnvOf(prog, [k \in DOMAIN prog |-> 0])
      ad == AddrFrom(prog, envq, sz, 1, 0)
      env == EnvOf(prog, ad)
      labs == Labels(prog)
      st == [k \in DOMAIN prog |-> Acceptable(prog[k], env, ad[k], DpsAt(prog, env, k), labs)]
  IN IF \E k \in DOMAIN prog : st[k].must = "reject" THEN "reject"
     ELSE IF \E k \in DOMAIN prog : st[k].must = "raw" THEN "either"
     ELSE LET nz == [k \in DOMAIN prog |-> Max2(sz[k], MaxLen(st[k].encs))] IN
          IF nz = sz THEN "accept" ELSE IF fuel = 0 THEN "either" ELSE WidenMax(prog, nz, fuel - 1)
\* what the property demands of the outcome for this program
Must(prog) == IF DupAt(prog) # {} \/ UndefAt(prog) # {} THEN "reject"
              ELSE LET r == RefLayout(prog) IN
                   IF r.must = "reject" THEN "reject" ELSE IF ~Plain(prog) THEN "either"
                   ELSE IF \E k \in DOMAIN prog : r.addrs[k] + r.sizes[k] > 65536 THEN "either"      \* runs past the 64 KiB address space
                   ELSE IF r.must = "accept" /\ WidenMax(prog, r.sizes, 12) # "accept" THEN "either"     \* validity depends on interchangeable width choices
                   ELSE r.must

\* ------------------------------------------------------------------ class lattice of a statement
SrcOfTerm(prog, k, t) == IF t.k = "num" THEN "lit" ELSE IF t.k # "sym" THEN "none"
                         ELSE IF t.s \notin Defined(prog) THEN "undef"
                         ELSE LET d == FirstDef(prog, t.s) IN
                              (IF prog[d].mn = "EQU" THEN "equ" ELSE "label") \o (IF d < k THEN "-before" ELSE IF d = k THEN "-self" ELSE "-after")
ValSrc(prog, k) == LET e == prog[k].expr IN
                   IF e.op = "" THEN SrcOfTerm(prog, k, e.l) ELSE "expr(" \o SrcOfTerm(prog, k, e.l) \o e.op \o SrcOfTerm(prog, k, e.r) \o ")"
SpOf(e) == IF e.op = "" THEN e.l.sp ELSE e.l.sp \o "," \o e.r.sp
ClassOf(prog, env, k) ==
  LET s == prog[k]
      e == Eval(env, s.expr)
      usesval == s.form \in {"imm", "mem", "extind", "pcr", "rel", "rmb", "org", "equ", "setdp"} \/ (s.form = "idx" /\ s.sub = "off")
  IN [mnclass |-> MnClass(s.mn), mn |-> s.mn, form |-> s.form, sub |-> IF s.form = "idx" THEN s.sub ELSE "",
      ind |-> s.ind, force |-> s.force, reg |-> IF s.form = "idx" THEN s.reg ELSE "",
      valclass |-> IF ~usesval THEN "" ELSE IF e.ok THEN ValClass(e.v) ELSE e.why,
      valsrc |-> IF usesval THEN ValSrc(prog, k)
                 ELSE IF s.form \in {"fcb", "fdb"} THEN (IF \E j \in DOMAIN s.vals : SymsOfE(s.vals[j]) # {} \/ s.vals[j].op # "" THEN "sym-list" ELSE "lit")
                 ELSE "",
      sp |-> IF usesval THEN SpOf(s.expr) ELSE "",
      nvals |-> Len(s.vals), nchars |-> Len(s.chars), label |-> s.label # "",
      strclass |-> IF s.form # "fcc" THEN "" ELSE
         LET c == s.chars  n == Len(s.chars)
             outside == {32, 59, 92, 96, 123, 124, 125, 126}        \* not in the README line grammar's operand alphabet
         IN (IF n = 0 THEN "E" ELSE "") \o (IF \E j \in 1..n : c[j] = 32 THEN "S" ELSE "")
            \o (IF \E j \in 1..(n - 1) : c[j] = 32 /\ c[j + 1] = 32 THEN "R" ELSE "")
            \o (IF n > 0 /\ c[1] = 32 THEN "L" ELSE "") \o (IF n > 0 /\ c[n] = 32 THEN "T" ELSE "")
            \o (IF \E j \in 1..n : c[j] = 59 THEN ";" ELSE "")
            \o (IF \E j \in 1..n : c[j] \in outside \ {32, 59} THEN "O" ELSE "")
            \o (IF \E j \in 1..n : c[j] < 16 THEN "c" ELSE ""),
      delim |-> IF s.form = "fcc" THEN s.expr.l.sp ELSE "",
      shape |-> IF Plain(prog) THEN "plain" ELSE IF Cardinality(OrgIdx(prog)) > 1 THEN "multi-org" ELSE "code-before-org"]

\* ------------------------------------------------------------------ the certificate
\* t = [id, prog, obs, outcome, diag_k, image, symtab, origin]
Item(c, k, cls, sym) == [clause |-> c, k |-> k, class |-> cls, symptom |-> sym]
NoSym == [dlen |-> 0, dres |-> 0, got |-> <<>>, why |-> ""]
NoClass == [mnclass |-> "", mn |-> "", form |-> "", sub |-> "", ind |-> FALSE, force |-> "", reg |-> "", valclass |-> "", valsrc |-> "", sp |-> "",
            nvals |-> 0, nchars |-> 0, label |-> FALSE, strclass |-> "", delim |-> "", shape |-> ""]
Prefix8(b) == IF Len(b) <= 8 THEN b ELSE SubSeq(b, 1, 8)

\* free text (form "raw") has no abstract form, but one thing about it is known: its characters.  An accepted statement that decodes as an indexed instruction on
\* base register R (or on the program counter) whose operand text never mentions R was "encoded as something else" (C12): LDA ,PCR emitted as A6 84 = LDA ,X
HasCode(txt, c) == \E j \in DOMAIN txt : txt[j] = c
HasPC(txt) == \E j \in 1..(Len(txt) - 1) : txt[j] = 80 /\ txt[j + 1] = 67
NamesOK(txt, d) ==
  (d.ok /\ d.mode = "ind" /\ d.idx.ok /\ d.idx.sub # "extind") =>
     (IF d.idx.pcr THEN HasPC(txt) ELSE HasCode(txt, CASE d.idx.reg = "X" -> 88 [] d.idx.reg = "Y" -> 89 [] d.idx.reg = "U" -> 85 [] OTHER -> 83))

JudgeAccepted(t) ==
  LET prog == t.prog
      obs == t.obs
      n == Len(prog)
      addrs == [k \in 1..n |-> obs[k].addr]
      env == EnvOf(prog, addrs)
      labs == Labels(prog)
      st == [k \in 1..n |-> Acceptable(prog[k], env, obs[k].addr, DpsAt(prog, env, k), labs)]
      cls(k) == ClassOf(prog, env, k)
      sym(k) == [dlen |-> IF st[k].encs = {} THEN 0 ELSE Len(obs[k].bytes) - MinLen(st[k].encs),
                 dres |-> IF k < n /\ prog[k + 1].mn # "ORG" THEN (obs[k + 1].addr - obs[k].addr) - Len(obs[k].bytes) ELSE 0,
                 got |-> Prefix8(obs[k].bytes), why |-> ""]
      offs == [k \in 1..n |-> Len(FlattenSeq([j \in 1..(k - 1) |-> obs[j].bytes]))]
      dec(k) == LET d == Decode(obs[k].bytes) IN d.ok /\ d.len = Len(obs[k].bytes) /\ prog[k].mn \in d.mns
      symval(s) == LET js == {j \in DOMAIN t.symtab : t.symtab[j].s = s} IN IF js = {} THEN -1 ELSE t.symtab[CHOOSE j \in js : TRUE].v
      items ==
           {Item("enc", k, cls(k), sym(k)) : k \in {j \in 1..n : st[j].must \in {"accept", "either"} /\ obs[j].bytes \notin st[j].encs}}
      \cup {Item("shouldreject", k, cls(k), sym(k)) : k \in {j \in 1..n : st[j].must = "reject"}}
      \cup {Item("decodes", k, cls(k), sym(k)) : k \in {j \in 1..n : prog[j].mn \in Mnemonics /\ ~dec(j)}}
      \cup {Item("names", k, cls(k), sym(k)) : k \in {j \in 1..n : prog[j].form = "raw" /\ prog[j].mn \in Mnemonics /\ "optcodes" \in DOMAIN prog[j] /\ dec(j)
                                                                     /\ ~NamesOK(prog[j].optcodes, Decode(obs[j].bytes))}}
      \cup {Item("reserved", k, cls(k), sym(k)) : k \in {j \in 1..(n - 1) : prog[j + 1].mn # "ORG" /\ obs[j + 1].addr # obs[j].addr + Len(obs[j].bytes)}}
      \cup {Item("placed", k, cls(k), sym(k)) : k \in {j \in 1..n : obs[j].bytes # <<>> /\ obs[j].addr # t.origin + offs[j]
                                                                       /\ \A i \in 1..(j - 1) : obs[i].bytes # <<>> => obs[i].addr = t.origin + offs[i]}}
      \cup {Item("org", k, cls(k), sym(k)) : k \in {j \in 1..n : prog[j].mn = "ORG" /\ LET e == Eval(env, prog[j].expr) IN e.ok /\ obs[j].addr # e.v % 65536}}
      \cup {Item("first", 1, cls(1), sym(1)) : k \in {j \in {1} : n >= 1 /\ prog[1].mn # "ORG" /\ obs[1].addr # 0}}
      \cup {Item("image", 0, [NoClass EXCEPT !.shape = cls(1).shape], NoSym) : k \in {j \in {1} : n >= 1 /\ t.image # FlattenSeq([i \in 1..n |-> obs[i].bytes])}}
      \cup {Item("symtab", FirstDef(prog, s), cls(FirstDef(prog, s)), [NoSym EXCEPT !.got = <<symval(s)>>]) : s \in {x \in DOMAIN env : symval(x) # env[x] % 65536}}
      \cup {Item("symextra", 0, NoClass, NoSym) : k \in {j \in DOMAIN t.symtab : t.symtab[j].s \notin Defined(prog)}}
      \cup {Item("dup", k, cls(k), NoSym) : k \in DupAt(prog)}
      \cup {Item("undef", k, cls(k), NoSym) : k \in UndefAt(prog)}
  IN items

JudgeRejected(t) ==
  LET prog == t.prog
      m == Must(prog)
      r == RefLayout(prog)
      env == EnvOf(prog, r.addrs)
      dk == IF t.diag_k \in DOMAIN prog THEN t.diag_k ELSE IF t.focus \in DOMAIN prog THEN t.focus ELSE 0     \* the statement the diagnostic names, else the one under test
      cls == IF dk = 0 THEN NoClass ELSE ClassOf(prog, env, dk)
  IN   (IF m = "accept" THEN {Item("accepted", dk, cls, NoSym)} ELSE {})

Judge(t) ==
  LET okout == t.outcome \in {"ok", "parse", "translation"}
      dk == IF t.diag_k \in DOMAIN t.prog THEN t.diag_k ELSE 0
      base == IF t.outcome = "ok" THEN JudgeAccepted(t)
              ELSE IF t.outcome \in {"parse", "translation", "internal", "timeout"} THEN JudgeRejected(t)     \* not accepted, whatever the way
              ELSE {}
      extra == (IF ~okout THEN {Item("outcome", dk, NoClass, [NoSym EXCEPT !.why = t.outcome])} ELSE {})
               \cup (IF t.outcome \in {"parse", "translation"} /\ ~t.diag_named THEN {Item("diagnames", dk, NoClass, NoSym)} ELSE {})
      envq == EnvOf(t.prog, [k \in DOMAIN t.prog |-> 0])
  IN [id |-> t.id, outcome |-> t.outcome, items |-> SetToSeq(base \cup extra),
      fclass |-> IF t.focus \in DOMAIN t.prog THEN ClassOf(t.prog, envq, t.focus) ELSE NoClass]
=============================================================================
