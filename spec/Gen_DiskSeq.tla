----------------------------- MODULE Gen_DiskSeq -----------------------------
(* Add-sequences explored on the abstract allocation machine (Disk.tla, default fill policy: first free granules of a
   fill order), exported with the outcome the machine requires of each add (ok / fail / either).              *)
EXTENDS Disk, Json, IOUtils
Lens == {0, 1, 255, 256, 257, 2299, 2303, 2304, 2305, 2309, 2314, 4603, 4607, 4608, 4609, 4613, 20000, 65545}
Depth == atoi(IOEnv.DEPTH)
Seqs == UNION {[1..k -> Lens] : k \in 1..Depth}
\* run: granules are taken lowest-numbered-free first (the outcome only depends on HOW MANY are free)
RECURSIVE Run(_, _, _)
Run(d, ls, i) == IF i > Len(ls) THEN <<>> ELSE
   LET L == ls[i]
       fr == SetToSortSeq(Free(d), <)
       must == MustFit(d, L)
       cant == CannotFit(d, L)
       a == SubSeq(fr, 1, NeedMax(L))
   IN IF must THEN <<"ok">> \o Run(AddFile(d, i, L, a), ls, i + 1)
      ELSE IF cant THEN <<"fail">> ELSE <<"either">>
NP == atoi(IOEnv.NPARTS)
PART == atoi(IOEnv.PART)
Out == SetToSeq({[lens |-> s, expect |-> Run(Empty, s, 1)] : s \in {x \in Seqs : (x[1] + Len(x)) % NP = PART}})
VARIABLE x
Init == x = 0 /\ ndJsonSerialize(IOEnv.OUT_FILE, Out)
Next == UNCHANGED x
Spec == Init /\ [][Next]_x
=============================================================================
