SPECIFICATION Spec
CONSTANTS MaxN = 3
 Fillers = {0, 1, 119, 120, 121, 122, 123, 124, 125, 126, 127, 128, 129}
INVARIANT WidthSafe
INVARIANT Decided
INVARIANT NoLivelock
PROPERTY Terminates
CHECK_DEADLOCK FALSE
