SPECIFICATION SpecW
CONSTANTS NG = 68
 GB = 2304
 SB = 256
 SLOTS = 72
CHECK_DEADLOCK FALSE
