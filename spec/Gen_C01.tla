------------------------------ MODULE Gen_C01 ------------------------------
(* Case export for C01 / C12: every mnemonic x every operand form of the README grammar x boundary
   values x spellings, as abstract statements of Asm.tla.  WHAT = "valid" exports the statements the
   datasheet mode table allows (must be accepted and encoded), "invalid" the complement (must be
   rejected: wrong mode, wrong register, value too wide for the operand).                         *)
EXTENDS Asm, Json, IOUtils
ValsFull == {0,1,15,16,17,127,128,129,255,256,257,4095,4096,32767,32768,65535,-1,-15,-16,-17,-127,-128,-129,-255,-256,-32767,-32768}
ValsQuick == {0,5,15,16,127,128,255,256,4660,32768,65535,-1,-16,-17,-128,-129,-32768}
Vals == IF IOEnv.TIER = "thorough" THEN ValsFull ELSE ValsQuick
CharOK(v) == v \in 48..57 \/ v \in 65..90 \/ v \in 97..122 \/ v \in {33,34,35,36,37,38,39,40,41,42,43,45,46,47,58,60,61,62,63,94}
SpsFull(v) == IF v < 0 THEN {"dec"} ELSE {"dec", "hex", "hex4"} \cup (IF v <= 255 THEN {"hex2", "bin8"} ELSE {}) \cup {"bin16"} \cup (IF CharOK(v) THEN {"char"} ELSE {})
SpsQuick(v) == IF v < 0 THEN {"dec"} ELSE {"dec", "hex4"} \cup (IF v \in {5, 128} THEN {"hex2", "bin8", "hex"} ELSE {}) \cup (IF v = 4660 THEN {"bin16", "hex"} ELSE {})
Sps(v) == IF IOEnv.TIER = "thorough" THEN SpsFull(v) ELSE SpsQuick(v)
NoT == [k |-> "none", n |-> 0, s |-> "", sp |-> ""]
N(v, sp) == [k |-> "num", n |-> v, s |-> "", sp |-> sp]
E1(t) == [l |-> t, op |-> "", r |-> NoT]
S0 == [label |-> "", mn |-> "NOP", form |-> "inh", force |-> "", reg |-> "X", sub |-> "zero", acc |-> "A", ind |-> FALSE,
       regs |-> <<>>, r1 |-> "D", r2 |-> "D", expr |-> E1(NoT), vals |-> <<>>, chars |-> <<>>]
Subs == {"zero","inc1","inc2","dec1","dec2"}
RegLists == IF IOEnv.TIER = "thorough" THEN SUBSET Regs ELSE {rs \in SUBSET Regs : Cardinality(rs) \in {1, 2, 10} \/ rs = {"A","B","X","Y","U","PC"} \/ rs = {"CC","DP","S","D"}}
Stmts(mn) ==
     {[S0 EXCEPT !.mn = mn, !.form = "inh"]}
  \cup {[S0 EXCEPT !.mn = mn, !.form = "imm", !.expr = E1(N(v, sp))] : <<v, sp>> \in {<<v, sp>> \in Vals \X {"dec","hex","hex2","hex4","bin8","bin16","char"} : sp \in Sps(v)}}
  \cup {[S0 EXCEPT !.mn = mn, !.form = "mem", !.force = f, !.expr = E1(N(x[1], x[2]))] : f \in {"", "<", ">"}, x \in {<<v, sp>> \in Vals \X {"dec","hex","hex2","hex4","bin8","bin16","char"} : sp \in Sps(v)}}
  \cup {[S0 EXCEPT !.mn = mn, !.form = "extind", !.expr = E1(N(x[1], x[2]))] : x \in {<<v, sp>> \in Vals \X {"dec","hex","hex2","hex4","bin8","bin16","char"} : sp \in Sps(v)}}
  \cup {[S0 EXCEPT !.mn = mn, !.form = "idx", !.reg = r, !.sub = s, !.ind = n] : r \in IdxRegs, s \in Subs, n \in BOOLEAN}
  \cup {[S0 EXCEPT !.mn = mn, !.form = "idx", !.reg = r, !.sub = "acc", !.acc = a, !.ind = n] : r \in IdxRegs, a \in {"A","B","D"}, n \in (IF mn \in StackOps \cup PairOps THEN {TRUE} ELSE BOOLEAN)}
  \cup {[S0 EXCEPT !.mn = mn, !.form = "idx", !.reg = r, !.sub = "off", !.ind = n, !.expr = E1(N(x[1], x[2]))] : r \in IdxRegs, n \in BOOLEAN, x \in {<<v, sp>> \in Vals \X {"dec","hex","hex2","hex4","bin8","bin16","char"} : sp \in Sps(v)}}
  \cup {[S0 EXCEPT !.mn = mn, !.form = "pcr", !.ind = n, !.expr = E1(N(x[1], x[2]))] : n \in BOOLEAN, x \in {<<v, sp>> \in Vals \X {"dec","hex","hex2","hex4","bin8","bin16","char"} : sp \in Sps(v)}}
  \cup (IF mn \in {"LDA", "LEAX", "STX", "JMP", "CMPY", "NEG"}
        THEN {[S0 EXCEPT !.mn = mn, !.form = "idx", !.reg = r, !.sub = s, !.ind = n, !.expr = E1(N(5, "dec"))] :
                 r \in {"Z", "PC", "W", "A", "DP", "x"}, s \in {"zero", "off", "inc1", "dec2", "acc"}, n \in BOOLEAN} ELSE {})
  \cup (IF mn \in {"LDA", "LEAX", "STX", "JMP", "CMPY", "NEG", "LDD", "STB"}
        THEN {[S0 EXCEPT !.mn = mn, !.form = "idx", !.reg = r, !.sub = s, !.ind = n] :
                 r \in IdxRegs, s \in {"dec1inc1", "dec2inc1", "dec1inc2", "dec2inc2", "inc3", "dec3"}, n \in BOOLEAN} ELSE {})
  \cup (IF mn \in StackOps \/ mn \in {"NOP", "BRA"} THEN {[S0 EXCEPT !.mn = mn, !.form = "regs", !.regs = SetToSeq(rs)] : rs \in RegLists \ {{}}} ELSE {})
  \cup (IF mn \in PairOps \/ mn \in {"NOP", "LBRA"} THEN {[S0 EXCEPT !.mn = mn, !.form = "pair", !.r1 = a, !.r2 = b] : a \in Regs, b \in Regs} ELSE {})
Ctx == [addr |-> 1, dp |-> 0]
IsValid(s) == Acceptable(s, <<>>, 1, {0}, {}).must = "accept"
IsInvalid(s) == Acceptable(s, <<>>, 1, {0}, {}).must = "reject"
Pick(s) == IF IOEnv.WHAT = "valid" THEN IsValid(s) ELSE IsInvalid(s)
NP == atoi(IOEnv.NPARTS)
PART == atoi(IOEnv.PART)
MyMns == {OpRows[k][1] : k \in {j \in DOMAIN OpRows : j % NP = PART}}
Out == SetToSeq(UNION {{s \in Stmts(mn) : Pick(s)} : mn \in MyMns})
VARIABLE x
Init == x = 0 /\ ndJsonSerialize(IOEnv.OUT_FILE, Out) /\ PrintT(<<"cases", Len(Out)>>)
Next == UNCHANGED x
Spec == Init /\ [][Next]_x
=============================================================================
