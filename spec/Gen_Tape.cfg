SPECIFICATION Spec
CONSTANT BLK = 255
CHECK_DEADLOCK FALSE
