----------------------------- MODULE MC_DiskLen -----------------------------
(* Length bookkeeping at real geometry, for EVERY stream length 0..65545 (exhaustive): the (granules, sectors in the
   last granule, bytes in the last sector) triple the writer records determines the length, sectors stay in 1..9,
   bytes in 0..255, and the granule count is the minimum or one more exactly at multiples of a granule.       *)
EXTENDS Disk, Json, IOUtils
Bad == {L \in 0..65545 : LET n == NeedMax(L)  x == LastLen(L, n)  s == SectorsOf(x)  b == LastBytesOf(x) IN
          ~(/\ Implied(n, s, b) = L /\ s \in 1..9 /\ b \in 0..(SB - 1) /\ x \in 0..(GB - 1)
            /\ n \in Needs(L) /\ (n # NeedMin(L) => (L % GB = 0 /\ L > 0))
            /\ NeedMin(L) * GB >= L /\ (L > 0 => (NeedMin(L) - 1) * GB < L))}
VARIABLE x
Init == x = 0 /\ ndJsonSerialize(IOEnv.OUT_FILE, <<[lengths |-> 65546, bad |-> Cardinality(Bad)]>>)
Next == UNCHANGED x
Spec == Init /\ [][Next]_x
=============================================================================
