-------------------------- MODULE Gen_SizingPrefix --------------------------
(* Export of (program, appended item) pairs over the sizing alphabet, for the replay of C18's PrefixStable on the real loop *)
EXTENDS AsmSizing, Json, IOUtils, Randomization
Fillers == {0, 1, 3, 117, 118, 119, 120, 121, 122, 123, 124, 125, 126, 127, 128}
Fix == {[k |-> "fix", sz |-> f, tgt |-> 0, base |-> 0, mx |-> f] : f \in Fillers}
Pcr(n) == [k : {"pcr"}, sz : {0}, tgt : 1..n, base : {2, 3}, mx : {0}]
N == atoi(IOEnv.N)
P3 == {p \in [1..3 -> Fix \cup Pcr(3)] : \E i \in 1..3 : p[i].k = "pcr"}
P4 == {<<a, b, c, d>> : a \in RandomSubset(6, Pcr(4)), b \in RandomSubset(5, Fix \cup Pcr(4)), c \in RandomSubset(5, Fix \cup Pcr(4)), d \in RandomSubset(4, Fix \cup Pcr(4))}
Small == {[k |-> "fix", sz |-> f, tgt |-> 0, base |-> 0, mx |-> f] : f \in {1, 117, 118, 119, 120, 121}}
Full4 == {p \in [1..4 -> Small \cup Pcr(4)] : p[1].k = "pcr" /\ \E i \in 2..4 : p[i].k = "pcr"}
Pairs == IF IOEnv.FULL4 = "1" THEN {[prog |-> p, x |-> x] : p \in Full4, x \in {[k |-> "pcr", sz |-> 0, tgt |-> 1, base |-> 2, mx |-> 0], [k |-> "pcr", sz |-> 0, tgt |-> 2, base |-> 3, mx |-> 0]}}
         ELSE {[prog |-> p, x |-> x] : p \in RandomSubset(N, P3) \cup P4, x \in RandomSubset(3, Pcr(2))}
VARIABLE y
Init == y = 0 /\ ndJsonSerialize(IOEnv.OUT_FILE, SetToSeq(Pairs))
Next == UNCHANGED y
Spec == Init /\ [][Next]_y
=============================================================================
