------------------------------- MODULE AsmRef -------------------------------
(* The assembler as an explicit state machine (reference behaviour), pass by pass:
     collect  - symbol collection; a label defined twice or a symbol never defined => rejected
     size     - monotone widening: lay the program out under the current sizes, ask Asm!Acceptable for the
                shortest legal encoding of every statement in that environment, raise sizes until nothing
                changes (least fixpoint); a statement with no legal encoding => rejected
     emit     - choose, for every statement, an encoding of exactly the chosen size
     done / rejected
   Invariants relate it to the certificate of Asm.tla (whatever this machine produces, the judge that
   is applied to the real assembler accepts) and state C02 / C03 directly on its output.            *)
EXTENDS Asm
CONSTANTS MaxN, Templates, LabelNames

Labelled == {[t EXCEPT !.label = l] : t \in Templates, l \in LabelNames \cup {""}}
Progs == UNION {[1..n -> Labelled] : n \in 1..MaxN}

VARIABLES prog, phase, sizes, iter, why, out
vars == <<prog, phase, sizes, iter, why, out>>
NoOut == [addrs |-> <<>>, bytes |-> <<>>]

Init == prog \in Progs /\ phase = "collect" /\ sizes = <<>> /\ iter = 0 /\ why = "" /\ out = NoOut
Collect == /\ phase = "collect"
           /\ IF DupAt(prog) # {} THEN phase' = "rejected" /\ why' = "dup" /\ UNCHANGED <<sizes, iter>>
              ELSE IF UndefAt(prog) # {} THEN phase' = "rejected" /\ why' = "undef" /\ UNCHANGED <<sizes, iter>>
              ELSE phase' = "size" /\ sizes' = [k \in DOMAIN prog |-> 0] /\ iter' = 0 /\ UNCHANGED why
           /\ UNCHANGED <<prog, out>>
EnvQ == EnvOf(prog, [k \in DOMAIN prog |-> 0])
Addrs(sz) == AddrFrom(prog, EnvQ, sz, 1, 0)
StAt(sz) == LET ad == Addrs(sz)  env == EnvOf(prog, ad)  labs == Labels(prog) IN
            [k \in DOMAIN prog |-> Acceptable(prog[k], env, ad[k], DpsAt(prog, env, k), labs)]
WidenStep == /\ phase = "size"
             /\ LET st == StAt(sizes) IN
                IF \E k \in DOMAIN prog : st[k].must = "reject"
                THEN phase' = "rejected" /\ why' = "unencodable" /\ UNCHANGED <<sizes, iter>>
                ELSE LET nz == [k \in DOMAIN prog |-> Max2(sizes[k], MinLen(st[k].encs))] IN
                     IF nz = sizes THEN phase' = "emit" /\ UNCHANGED <<sizes, iter, why>>
                     ELSE sizes' = nz /\ iter' = iter + 1 /\ UNCHANGED <<phase, why>>
             /\ UNCHANGED <<prog, out>>
Emit == /\ phase = "emit"
        /\ LET st == StAt(sizes)
               S(k) == {e \in st[k].encs : Len(e) = sizes[k]}
           IN /\ \A k \in DOMAIN prog : S(k) # {}
              /\ out' = [addrs |-> Addrs(sizes), bytes |-> [k \in DOMAIN prog |-> CHOOSE e \in S(k) : TRUE]]
        /\ phase' = "done" /\ UNCHANGED <<prog, sizes, iter, why>>
Next == Collect \/ WidenStep \/ Emit
Spec == Init /\ [][Next]_vars /\ WF_vars(Next)

\* ---- the recorded-assembly view of a finished run, as the trace judge sees the real assembler
LastOrg == LET ks == OrgIdx(prog) IN IF ks = {} THEN 0 ELSE CHOOSE k \in ks : \A j \in ks : j <= k
AsTrace ==
  LET env == EnvOf(prog, out.addrs) IN
  [id |-> 0, prog |-> prog, obs |-> [k \in DOMAIN prog |-> [addr |-> out.addrs[k], bytes |-> out.bytes[k]]],
   outcome |-> "ok", diag_k |-> 0, diag_named |-> TRUE, focus |-> 0,
   image |-> FlattenSeq(out.bytes),
   symtab |-> LET names == SetToSeq(DOMAIN env) IN [j \in DOMAIN names |-> [s |-> names[j], v |-> env[names[j]] % 65536]],
   origin |-> IF LastOrg = 0 THEN 0 ELSE out.addrs[LastOrg]]
\* gate: the certificate is satisfiable - whatever the reference assembler produces, the judge accepts
\* ("placed" is excused for programs that are not contiguous from one origin: C02 leaves those free)
CertOK == phase = "done" => LET cl == {Judge(AsTrace).items[k].clause : k \in DOMAIN Judge(AsTrace).items} IN
                            cl \subseteq (IF Plain(prog) THEN {} ELSE {"placed"})
\* gate: the judge's own must-accept / must-reject computation agrees with what this machine does
MustOK == /\ phase = "done" => Must(prog) # "reject"
          /\ phase = "rejected" => Must(prog) # "accept"
\* C02 stated directly: addresses advance by the bytes emitted (ORG resets), labels name their statement's address
LayoutInv == phase = "done" =>
   /\ \A k \in 1..(Len(prog) - 1) : prog[k + 1].mn # "ORG" => out.addrs[k + 1] = out.addrs[k] + Len(out.bytes[k])
   /\ \A s \in Labels(prog) : EnvOf(prog, out.addrs)[s] = out.addrs[FirstDef(prog, s)]
\* C03 stated directly: every branch / label,PCR decodes to a displacement that reaches its target, in a field that holds it
ReachInv == phase = "done" => \A k \in DOMAIN prog :
   (prog[k].form \in {"rel", "pcr"} /\ SymsOfE(prog[k].expr) \cap Labels(prog) # {}) =>
      LET d == Decode(out.bytes[k])
          tgt == Eval(EnvOf(prog, out.addrs), prog[k].expr).v % 65536
          disp == IF d.mode = "rel" THEN S8(d.val) ELSE IF d.mode = "rel16" THEN S16(d.val) ELSE d.idx.val
      IN d.ok /\ (out.addrs[k] + Len(out.bytes[k]) + disp) % 65536 = tgt
Bounded == iter <= 8
Terminates == <>(phase \in {"done", "rejected"})
=============================================================================
