SPECIFICATION Spec
CONSTANTS NG = 68
 GB = 2304
 SB = 256
 SLOTS = 72
 Lens = {1}
 Order <- DefaultOrder
 AnyAlloc = FALSE
 MaxAdds = 74
INVARIANT Valid
INVARIANT Disjoint
INVARIANT Orphans
INVARIANT Lengths
INVARIANT Cap
INVARIANT FitsIfRoom
PROPERTY OldFilesStable
CHECK_DEADLOCK FALSE
