SPECIFICATION GSpec
CONSTANTS Names = {"a", "b", "c"}
 Missing = "zz"
 MaxLen = 2
 Stmts = {1, 2}
CHECK_DEADLOCK FALSE
