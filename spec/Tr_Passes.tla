------------------------------ MODULE Tr_Passes ------------------------------
(* Trace validation of the assembler's passes: the pass-boundary hook events of one assembly
   (Collected, Translated, SizeDecide*, Sweep*, Laid, Fixed, Backpatched) against AsmPasses.
   t = [id, p (abstract program facts from the generator), events]                                           *)
EXTENDS AsmPasses, Json, IOUtils
Batch == ndJsonDeserialize(IOEnv.TRACE_FILE)
Fail(acc, w) == [acc EXCEPT !.ok = FALSE, !.why = w]
Ev(p, acc, e) ==
  IF ~acc.ok THEN acc ELSE
  LET a == [acc EXCEPT !.at = @ + 1] IN
  CASE e.ev = "Collected" ->
         IF acc.stage # 0 THEN Fail(a, "order-collected")
         ELSE IF e.n # p.n \/ e.mnemonics # p.mn THEN Fail(a, "statements")
         ELSE IF ~CollectOK(p, e.symbols) THEN Fail(a, "collect")
         ELSE [a EXCEPT !.stage = 1, !.collected = e.symbols]
    [] e.ev = "Translated" ->
         IF acc.stage # 1 THEN Fail(a, "order-translated")
         ELSE IF ~TranslateOK(p, e.sizes, e.fixedv) THEN Fail(a, "translate")
         ELSE [a EXCEPT !.stage = 2, !.sizes = e.sizes, !.fixed = e.fixedv]
    [] e.ev = "Sweep" ->
         IF acc.stage # 2 THEN Fail(a, "order-sweep")
         ELSE IF ~SizeStepOK(acc.sizes, acc.fixed, e.sizes, e.fixedv) THEN Fail(a, "size-monotone")
         ELSE [a EXCEPT !.sizes = e.sizes, !.fixed = e.fixedv]
    [] e.ev = "SizeDecide" -> IF acc.stage # 2 THEN Fail(a, "order-decide") ELSE a
    [] e.ev = "Laid" ->
         IF acc.stage # 2 THEN Fail(a, "order-laid")
         ELSE IF ~SizeStepOK(acc.sizes, acc.fixed, e.sizes, [i \in DOMAIN e.sizes |-> TRUE]) THEN Fail(a, "size-final")
         ELSE IF ~LayOK(p, e.sizes, e.addrs) THEN Fail(a, "lay")
         ELSE [a EXCEPT !.stage = 3, !.sizes = e.sizes, !.addrs = e.addrs]
    [] e.ev = "Fixed" ->
         IF acc.stage # 3 THEN Fail(a, "order-fixed")
         ELSE IF e.sizes # acc.sizes THEN Fail(a, "size-changed-by-fix")
         ELSE IF ~FixOK(e.sizes, e.lens) THEN Fail(a, "fix-length")
         ELSE [a EXCEPT !.stage = 4]
    [] e.ev = "Backpatched" ->
         IF acc.stage # 4 THEN Fail(a, "order-backpatched")
         ELSE IF ~BackpatchOK(p, acc.collected, acc.addrs, e.symbols) THEN Fail(a, "backpatch")
         ELSE [a EXCEPT !.stage = 5]
    [] OTHER -> Fail(a, "unknown-event")
Judge(t) == LET r == FoldLeft(LAMBDA acc, e : Ev(t.p, acc, e),
                              [ok |-> TRUE, why |-> "", at |-> 0, stage |-> 0, collected |-> <<>>, sizes |-> <<>>, fixed |-> <<>>, addrs |-> <<>>], t.events)
            IN [id |-> t.id, ok |-> r.ok /\ (t.accepted => r.stage = 5), why |-> IF r.ok /\ t.accepted /\ r.stage # 5 THEN "incomplete" ELSE r.why, at |-> r.at, stage |-> r.stage]
VARIABLE x
Init == x = 0 /\ ndJsonSerialize(IOEnv.OUT_FILE, [k \in DOMAIN Batch |-> Judge(Batch[k])])
Next == UNCHANGED x
Spec == Init /\ [][Next]_x
=============================================================================
