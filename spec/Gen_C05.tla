------------------------------ MODULE Gen_C05 ------------------------------
(* Case export for C05: data directives.  FCB / FDB lists of length 1, 2, 3, 64 over literal spellings, negatives and
   boundary values (in range: must be emitted exactly; out of range: must be rejected), FCC strings from the
   string class lattice x delimiter, RMB counts, and the directives that must emit nothing.                      *)
EXTENDS Asm, Json, IOUtils
NoT == [k |-> "none", n |-> 0, s |-> "", sp |-> ""]
N(v, sp) == [k |-> "num", n |-> v, s |-> "", sp |-> sp]
Sy(s) == [k |-> "sym", n |-> 0, s |-> s, sp |-> ""]
E1(t) == [l |-> t, op |-> "", r |-> NoT]
S0 == [label |-> "", mn |-> "NOP", form |-> "inh", force |-> "", reg |-> "X", sub |-> "zero", acc |-> "A", ind |-> FALSE,
       regs |-> <<>>, r1 |-> "D", r2 |-> "D", expr |-> E1(NoT), vals |-> <<>>, chars |-> <<>>]
Thorough == IOEnv.TIER = "thorough"
ByteEls == {N(0,"dec"), N(1,"hex2"), N(127,"dec"), N(128,"hex"), N(255,"dec"), N(255,"hex2"), N(5,"bin8"), N(65,"char"), N(-1,"dec"), N(-128,"dec"), N(16,"hex4")}
ByteBad == {N(256,"dec"), N(-129,"dec"), N(4660,"hex"), N(65535,"dec"), N(256,"bin16")}
WordEls == {N(0,"dec"), N(1,"hex2"), N(255,"dec"), N(256,"hex4"), N(4660,"hex"), N(32767,"dec"), N(32768,"hex"), N(65535,"dec"), N(65535,"hex4"), N(-1,"dec"), N(-32768,"dec"), N(258,"bin16"), N(65,"char")}
Lists(Els) == {<<a>> : a \in Els} \cup {<<a, b>> : a \in Els, b \in Els}
              \cup {<<a, b, c>> : a \in ({N(1,"dec"), N(-1,"dec"), N(255,"hex2")} \cap Els) \cup {CHOOSE x \in Els : TRUE}, b \in Els, c \in {N(0,"dec"), N(255,"dec")}}
              \cup {[k \in 1..64 |-> IF k % 2 = 0 THEN a ELSE b] : a \in Els, b \in {N(0,"dec"), N(255,"dec")}}
BadLists(Els, Bad) == {<<b>> : b \in Bad} \cup {<<a, b>> : a \in {N(1,"dec")}, b \in Bad} \cup {<<b, a>> : a \in {N(1,"dec")}, b \in Bad}
Fcb(vs) == [S0 EXCEPT !.mn = "FCB", !.form = "fcb", !.vals = [k \in DOMAIN vs |-> E1(vs[k])]]
Fdb(vs) == [S0 EXCEPT !.mn = "FDB", !.form = "fdb", !.vals = [k \in DOMAIN vs |-> E1(vs[k])]]
\* strings: character codes; the delimiter is a rendering choice carried in expr.l.sp
Str(s) == s
Strings == { <<>>, <<72,69,76,76,79>>, <<65>>, <<65,32,66>>, <<65,32,32,66>>, <<65,32,32,32,32,66>>, <<32,65>>, <<65,32>>, <<32>>, <<32,32>>,
             <<65,59,66>>, <<59>>, <<65,32,59,32,66>>, <<65,124,66>>, <<123,126,125>>, <<65,92,66>>, <<97,98,99>>, <<48,49,50>>,
             <<65,34,66>>, <<65,47,66>>, <<65,39,66>>, <<35,36,37,44,46>>, <<72,101,108,108,111,44,32,87,111,114,108,100,33>>,
             [k \in 1..255 |-> 65 + (k % 26)], [k \in 1..255 |-> IF k % 5 = 0 THEN 32 ELSE 97 + (k % 26)], [k \in 1..64 |-> 32],
             <<65,9,66>>, <<9>>, <<9,65,9>>, <<1,15>>, <<127,128,255>> }   \* a tab and other characters below $10 / above $7E are characters like any other
\* "a matching pair of delimiters": any printable character that is not in the string (not a blank, not the comment character)
Delims == {<<"dq", 34>>, <<"slash", 47>>, <<"sq", 39>>, <<"bar", 124>>, <<"d35", 35>>, <<"d91", 91>>, <<"d60", 60>>, <<"d36", 36>>, <<"d37", 37>>,
           <<"d33", 33>>, <<"d58", 58>>, <<"d46", 46>>, <<"d42", 42>>, <<"d40", 40>>, <<"d88", 88>>, <<"d64", 64>>, <<"d93", 93>>, <<"d62", 62>>}
Fcc(cs, d) == [S0 EXCEPT !.mn = "FCC", !.form = "fcc", !.chars = cs, !.expr = E1([k |-> "none", n |-> d[2], s |-> "", sp |-> d[1]])]
FccCases == {Fcc(cs, d) : <<cs, d>> \in {<<cs, d>> \in Strings \X Delims : d[2] \notin {cs[k] : k \in DOMAIN cs}}}
Rmb(n, sp) == [S0 EXCEPT !.mn = "RMB", !.form = "rmb", !.expr = E1(N(n, sp))]
RmbCases == {Rmb(0,"dec"), Rmb(1,"dec"), Rmb(2,"hex2"), Rmb(255,"dec"), Rmb(256,"hex4"), Rmb(4660,"hex"), Rmb(65535,"dec"), Rmb(8,"hex"), Rmb(-1,"dec")}
Silent == {[S0 EXCEPT !.mn = "EQU", !.form = "equ", !.label = "Q", !.expr = E1(N(4660, "hex"))],
           [S0 EXCEPT !.mn = "EQU", !.form = "equ", !.label = "Q", !.expr = E1(N(5, "dec"))],
           [S0 EXCEPT !.mn = "SETDP", !.form = "setdp", !.expr = E1(N(0, "dec"))],
           [S0 EXCEPT !.mn = "NAM", !.form = "nam"],
           [S0 EXCEPT !.mn = "END", !.form = "end"],
           [S0 EXCEPT !.mn = "END", !.form = "end", !.expr = E1(Sy("L1"))]}
All == {Fcb(vs) : vs \in Lists(ByteEls)} \cup {Fcb(vs) : vs \in BadLists(ByteEls, ByteBad)}
       \cup {Fdb(vs) : vs \in Lists(WordEls)} \cup FccCases \cup RmbCases \cup Silent
       \cup {Fcb(<<Sy("L2")>>), Fcb(<<N(1, "dec"), Sy("L2")>>), Fdb(<<Sy("L2")>>), Fdb(<<Sy("L2"), N(1, "dec")>>), Fdb(<<Sy("NOSUCH")>>)}
Out == SetToSeq(All)
VARIABLE x
Init == x = 0 /\ ndJsonSerialize(IOEnv.OUT_FILE, Out) /\ PrintT(<<"cases", Len(Out)>>)
Next == UNCHANGED x
Spec == Init /\ [][Next]_x
=============================================================================
