---------------------------- MODULE Tr_DiskRead ----------------------------
(* Reader direction of C07: images written by the specification (DiskBytes!WriteImage, any chains) and listed by the tool *)
EXTENDS Tr_Disk
JudgeR(t) ==
  LET files == t.files
      lst == t.listed
      m == IF Len(lst.files) < Len(files) THEN Len(lst.files) ELSE Len(files)
      bad == {j \in 1..m : ~FileEq(lst.files[j], files[j])}
      firstbad == IF ~lst.ok THEN 1 ELSE IF bad # {} THEN CHOOSE j \in bad : \A i \in bad : j <= i ELSE IF Len(lst.files) # Len(files) THEN m + 1 ELSE 0
      cls == [j \in DOMAIN files |-> FileClass(files[j], t.chains[j])]
  IN [id |-> t.id, firstbad |-> firstbad, exc |-> lst.exc, classes |-> cls]
InitR == x = 0 /\ ndJsonSerialize(IOEnv.OUT_FILE, [k \in DOMAIN Batch |-> JudgeR(Batch[k])])
NextR == UNCHANGED x
SpecR == InitR /\ [][NextR]_x
=============================================================================
