SPECIFICATION Spec
CONSTANTS
  N = 3
  Labels = {"A", "B"}
  Orgs = {0, 256, 65535}
INVARIANT StepsOK
INVARIANT EndToEnd
INVARIANT Perturbed
PROPERTY SizeMonotone
CHECK_DEADLOCK FALSE
