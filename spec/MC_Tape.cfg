SPECIFICATION Spec
CONSTANT BLK = 3
CONSTANT MaxData = 2
INVARIANT RoundTrip
INVARIANT ChunkLaw
CHECK_DEADLOCK FALSE
