------------------------------ MODULE Gen_Tape ------------------------------
(* Spec-written tape streams (real block size) for the reader direction of C06: the files come from the harness
   (IOEnv.TRACE_FILE: records [id, files, lay]); this module only applies the specification's writer.        *)
EXTENDS Tape, Json, IOUtils
Batch == ndJsonDeserialize(IOEnv.TRACE_FILE)
VARIABLE x
Init == x = 0 /\ ndJsonSerialize(IOEnv.OUT_FILE, [k \in DOMAIN Batch |-> [id |-> Batch[k].id, buffer |-> WriteTape(Batch[k].files, Batch[k].lay)]])
Next == UNCHANGED x
Spec == Init /\ [][Next]_x
=============================================================================
