----------------------------- MODULE Gen_Include -----------------------------
(* Spec -> code for C19: exports every possible CONTENT of one file of the Include machine (sequences of <= MaxLen
   items over Stmts and INCLUDEs of Names / the missing file).  The initial states of MC_Include are exactly the
   functions Names -> these contents (Include!FileSets); the harness takes that product (all of it in the thorough
   tier, a seeded sample in the quick tier), writes each as real files and runs the assembler on the root file.    *)
EXTENDS Include, Json, IOUtils
Contents == UNION {[1..n -> Item] : n \in 0..MaxLen}
GInit == /\ files = [n \in Names |-> <<>>] /\ stack = <<>> /\ out = <<>> /\ phase = "gen"
         /\ ndJsonSerialize(IOEnv.OUT_FILE, SetToSeq({[items |-> c] : c \in Contents}))
GNext == UNCHANGED vars
GSpec == GInit /\ [][GNext]_vars
=============================================================================
