------------------------------- MODULE MC_Include -------------------------------
(* INCLUDE as textual inclusion.  A file is a sequence of items: a statement (a number) or an include of a named file.
   The expansion is a stack machine (as program.py process_mnemonics recurses): emit statements in order, enter an
   included file, leave it at its end; including a file whose inclusion is in progress, or a file that does not exist,
   is rejected.  Checked against the recursive definition of the spliced text.                               *)
EXTENDS Integers, Sequences, FiniteSets, SequencesExt, TLC
CONSTANTS Names, Missing, MaxLen, Stmts

Item == [k : {"s"}, v : Stmts, inc : {""}] \cup [k : {"i"}, v : {0}, inc : Names \cup {Missing}]
IsInc(x) == x.k = "i"
FileSets == [Names -> UNION {[1..n -> Item] : n \in 0..MaxLen}]
VARIABLES files, stack, out, phase
vars == <<files, stack, out, phase>>
Root == CHOOSE n \in Names : TRUE
Init == files \in FileSets /\ stack = <<[f |-> Root, p |-> 1]>> /\ out = <<>> /\ phase = "run"
Top == stack[Len(stack)]
Step == /\ phase = "run"
        /\ IF Top.p > Len(files[Top.f])
           THEN (IF Len(stack) = 1 THEN phase' = "done" /\ UNCHANGED <<stack, out>>
                 ELSE stack' = SubSeq(stack, 1, Len(stack) - 1) /\ UNCHANGED <<out, phase>>)
           ELSE LET x == files[Top.f][Top.p]
                    adv == [stack EXCEPT ![Len(stack)].p = @ + 1] IN
                IF ~IsInc(x) THEN out' = Append(out, x.v) /\ stack' = adv /\ UNCHANGED phase
                ELSE IF x.inc = Missing THEN phase' = "missing" /\ UNCHANGED <<stack, out>>
                ELSE IF \E i \in DOMAIN stack : stack[i].f = x.inc THEN phase' = "cycle" /\ UNCHANGED <<stack, out>>
                ELSE stack' = Append(adv, [f |-> x.inc, p |-> 1]) /\ UNCHANGED <<out, phase>>
        /\ UNCHANGED files
Next == Step
Spec == Init /\ [][Next]_vars /\ WF_vars(Next)
\* the spliced text, by recursion with the set of files being expanded (bad = a cycle or a missing file was met)
RECURSIVE Splice(_, _, _)
Splice(fs, f, busy) ==
  LET items == fs[f]
      parts == [i \in DOMAIN items |-> IF ~IsInc(items[i]) THEN [bad |-> FALSE, s |-> <<items[i].v>>]
                                       ELSE IF items[i].inc = Missing \/ items[i].inc \in busy \cup {f} THEN [bad |-> TRUE, s |-> <<>>]
                                       ELSE Splice(fs, items[i].inc, busy \cup {f})]
      firstbad == {i \in DOMAIN parts : parts[i].bad}
  IN [bad |-> firstbad # {}, s |-> FlattenSeq([i \in DOMAIN parts |-> parts[i].s])]
TextualInclusion == phase = "done" => LET r == Splice(files, Root, {}) IN ~r.bad /\ out = r.s
RejectsExactly == phase \in {"cycle", "missing"} => Splice(files, Root, {}).bad
StackBounded == Len(stack) <= Cardinality(Names)
Terminates == <>(phase # "run")
=============================================================================
