-------------------------------- MODULE Tape --------------------------------
(* The CoCo cassette container.  A tape is a byte stream; per file: leader, name-file block (15 payload
   bytes), leader, data blocks (<= BLK payload bytes each), end-of-file block.  Every block is
   $55 $3C type len payload checksum $55 with checksum = (type + len + sum payload) mod 256.
   Writer = actions that append to the stream (as cassette.py add_file does, step by step);
   reader  = a CLOAD-like scanner (sync on filler, length, checksum, trailer, block order).
   file = [name, type, dtype, gap, a1, a2, data]   (a1, a2: the two 16-bit addresses in stream order) *)
EXTENDS Integers, Sequences, FiniteSets, SequencesExt, TLC
CONSTANT BLK                       \* 255 on a real CoCo

Sum(s) == FoldLeft(LAMBDA a, b : a + b, 0, s)
W16(v) == <<(v \div 256) % 256, v % 256>>
Pad8(s) == [k \in 1..8 |-> IF k <= Len(s) THEN s[k] ELSE 32]
Up(c) == IF c \in 97..122 THEN c - 32 ELSE c
UpS(s) == [k \in DOMAIN s |-> Up(s[k])]
Block(t, p) == <<85, 60, t, Len(p)>> \o p \o <<(t + Len(p) + Sum(p)) % 256, 85>>
NameBlock(f) == Block(0, Pad8(f.name) \o <<f.type, f.dtype, f.gap>> \o W16(f.a1) \o W16(f.a2))
RECURSIVE Chunks(_)
Chunks(d) == IF Len(d) = 0 THEN <<>> ELSE IF Len(d) <= BLK THEN <<d>> ELSE <<SubSeq(d, 1, BLK)>> \o Chunks(SubSeq(d, BLK + 1, Len(d)))
NChunks(n) == (n + BLK - 1) \div BLK
\* a recorder may also cut the data into smaller blocks ("at most 255 bytes each"): lay.chunk, when present, is the payload size it uses
RECURSIVE ChunksN(_, _)
ChunksN(d, n) == IF Len(d) = 0 THEN <<>> ELSE IF Len(d) <= n THEN <<d>> ELSE <<SubSeq(d, 1, n)>> \o ChunksN(SubSeq(d, n + 1, Len(d)), n)
ChunkOf(lay) == IF "chunk" \in DOMAIN lay THEN lay.chunk ELSE BLK
Fill(b, n) == [k \in 1..n |-> b]
\* lay = [blank, leader, gap]: run lengths of $00 / $55 filler before each header / data section, and between data blocks
WriteFile(f, lay) == Fill(0, lay.blank) \o Fill(85, lay.leader) \o NameBlock(f) \o Fill(0, lay.blank) \o Fill(85, lay.leader)
                     \o (LET cs == ChunksN(f.data, ChunkOf(lay)) IN FlattenSeq([k \in 1..Len(cs) |-> Block(1, cs[k]) \o Fill(85, lay.gap)]))
                     \o Block(255, <<>>)
WriteTape(fs, lay) == FlattenSeq([k \in 1..Len(fs) |-> WriteFile(fs[k], lay)])

\* ------------------------------------------------------------------ reader
IsFiller(b) == b = 0 \/ b = 85
NextSig(t, p) == IF p > Len(t) THEN Len(t) + 1 ELSE
                 LET k == SelectInSubSeq(t, p, Len(t), LAMBDA b : ~IsFiller(b)) IN IF k = 0 THEN Len(t) + 1 ELSE k
BlockAt(t, q) ==  \* q = index of $3C
  IF q < 2 \/ t[q - 1] # 85 \/ q + 2 > Len(t) THEN [ok |-> FALSE, why |-> "sync", typ |-> 0, pay |-> <<>>, next |-> q]
  ELSE LET typ == t[q + 1]
           n == t[q + 2]
       IN IF q + 4 + n > Len(t) THEN [ok |-> FALSE, why |-> "short", typ |-> typ, pay |-> <<>>, next |-> q]
          ELSE LET pay == SubSeq(t, q + 3, q + 2 + n) IN
               IF t[q + 3 + n] # (typ + n + Sum(pay)) % 256 THEN [ok |-> FALSE, why |-> "checksum", typ |-> typ, pay |-> pay, next |-> q]
               ELSE IF t[q + 4 + n] # 85 THEN [ok |-> FALSE, why |-> "trailer", typ |-> typ, pay |-> pay, next |-> q]
               ELSE [ok |-> TRUE, why |-> "", typ |-> typ, pay |-> pay, next |-> q + 5 + n]
FileOfName(p) == [name |-> SubSeq(p, 1, 8), type |-> p[9], dtype |-> p[10], gap |-> p[11], a1 |-> p[12] * 256 + p[13], a2 |-> p[14] * 256 + p[15], data |-> <<>>]
NoFile == [name |-> <<>>, type |-> 0, dtype |-> 0, gap |-> 0, a1 |-> 0, a2 |-> 0, data |-> <<>>]
\* one scanner step: state [p, has, f, files, ok, why, done, nblocks]
\* noleader counts the places where the format demands a leader and the stream has none: a name-file block, or the first
\* block after a name-file block, whose $55 $3C sync is not preceded by at least one further $55
Scan0 == [p |-> 1, has |-> FALSE, f |-> NoFile, files |-> <<>>, ok |-> TRUE, why |-> "", done |-> FALSE, nblocks |-> 0, noleader |-> 0, first |-> FALSE]
HasLeader(t, q, p) == q - 2 >= p /\ t[q - 2] = 85      \* a $55 of its own, after the previous block's trailer
Stop(s, w) == [s EXCEPT !.ok = FALSE, !.why = w, !.done = TRUE]
ScanStep(t, s) ==
  LET q == NextSig(t, s.p) IN
  IF q > Len(t) THEN (IF s.has THEN Stop(s, "eof-missing") ELSE [s EXCEPT !.done = TRUE])
  ELSE IF t[q] # 60 THEN Stop(s, "garbage")
  ELSE LET b == BlockAt(t, q) IN
       IF ~b.ok THEN Stop(s, b.why)
       ELSE CASE b.typ = 0 -> IF s.has \/ Len(b.pay) # 15 THEN Stop(s, "namefile")
                             ELSE [s EXCEPT !.p = b.next, !.has = TRUE, !.f = FileOfName(b.pay), !.nblocks = @ + 1, !.first = TRUE,
                                            !.noleader = @ + (IF HasLeader(t, q, s.p) THEN 0 ELSE 1)]
              [] b.typ = 1 -> IF ~s.has \/ Len(b.pay) > BLK THEN Stop(s, "datablock")         \* "at most 255 bytes each": an empty data block is well formed too
                             ELSE [s EXCEPT !.p = b.next, !.f.data = @ \o b.pay, !.nblocks = @ + 1, !.first = FALSE,
                                            !.noleader = @ + (IF s.first /\ ~HasLeader(t, q, s.p) THEN 1 ELSE 0)]
              [] b.typ = 255 -> IF ~s.has \/ Len(b.pay) # 0 THEN Stop(s, "eofblock")
                               ELSE [s EXCEPT !.p = b.next, !.has = FALSE, !.files = Append(@, s.f), !.nblocks = @ + 1, !.first = FALSE,
                                              !.noleader = @ + (IF s.first /\ ~HasLeader(t, q, s.p) THEN 1 ELSE 0)]
              [] OTHER -> Stop(s, "blocktype")
RECURSIVE ScanAll(_, _)
ScanAll(t, s) == IF s.done THEN s ELSE ScanAll(t, ScanStep(t, s))
ParseTape(t) == LET s == ScanAll(t, Scan0) IN [ok |-> s.ok, why |-> s.why, files |-> s.files, nblocks |-> s.nblocks, noleader |-> s.noleader]
\* what a name compares as: space padded / truncated to 8, letter case ignored
NormName(n) == UpS(Pad8(IF Len(n) > 8 THEN SubSeq(n, 1, 8) ELSE n))
FEq(a, b) == NormName(a.name) = NormName(b.name) /\ a.type = b.type /\ a.dtype = b.dtype /\ a.a1 = b.a1 /\ a.a2 = b.a2 /\ a.data = b.data
SameFiles(as, bs) == Len(as) = Len(bs) /\ \A k \in DOMAIN as : FEq(as[k], bs[k])
=============================================================================
