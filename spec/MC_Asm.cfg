SPECIFICATION Spec2
INVARIANT CertOK
INVARIANT MustOK
INVARIANT LayoutInv
INVARIANT ReachInv
INVARIANT Bounded
PROPERTY Terminates
CHECK_DEADLOCK FALSE
