------------------------------ MODULE Tr_Disk ------------------------------
(* Trace validation of disk-image histories.  A history is a sequence of add(file) events on a DiskFile, each with
   the result and a snapshot DELTA of the image (allocation-table sector, directory sectors, the granules whose bytes
   changed, any byte that changed outside granules/FAT/directory) plus what the tool's own reader lists afterwards.
   The judge folds the events over the reconstructed image state and evaluates, per step:
     - for the NEW file: Disk BASIC consistency (chain, marker, length, stream in chain order, directory fields),
       exact space accounting against Disk.tla (granules needed / free before, slot), freshness of what it took;
     - for the OLD files: nothing of theirs changed (entries, chains, granule bytes);
     - round trip: the tool's listing returns every file stored so far.
   Verdicts are per step and per clause, with the spec-computed class of the file concerned.              *)
EXTENDS Disk, Json, IOUtils
Batch == ndJsonDeserialize(IOEnv.TRACE_FILE)
FATLEN == 68
Upper(c) == IF c \in 97..122 THEN c - 32 ELSE c
UpSeq(s) == [k \in DOMAIN s |-> Upper(s[k])]
Pad(s, n) == [k \in 1..n |-> IF k <= Len(s) THEN s[k] ELSE 32]
W16(v) == <<(v \div 256) % 256, v % 256>>
Blank == [k \in 1..GB |-> 255]
\* expected stored stream of a file
IsML(f) == f.type = 2
IsAsc(f) == f.type # 2 /\ f.dtype = 255
Stream(f) == IF IsML(f) THEN <<0>> \o W16(Len(f.data)) \o W16(f.a1) \o f.data \o <<255, 0, 0>> \o W16(f.a2)
             ELSE IF IsAsc(f) THEN f.data
             ELSE <<255>> \o W16(Len(f.data)) \o f.data
Kind(f) == IF IsML(f) THEN "ML" ELSE IF IsAsc(f) THEN "ASC" ELSE "BAS"
\* image state: fat (68 entries as read from the FAT sector), dir (2304 bytes), gr : granule -> bytes (absent = all $FF)
GranOf(st, g) == IF g \in DOMAIN st.gr THEN st.gr[g] ELSE Blank
DirEnt(dir, k) == LET o == 32 * k IN
   [name |-> SubSeq(dir, o + 1, o + 8), ext |-> SubSeq(dir, o + 9, o + 11), type |-> dir[o + 12], dtype |-> dir[o + 13],
    fg |-> dir[o + 14], lastb |-> dir[o + 15] * 256 + dir[o + 16], raw |-> SubSeq(dir, o + 1, o + 32)]
UsedSlots(dir) == {k \in 0..(SLOTS - 1) : dir[32 * k + 1] \notin {0, 255}}
RECURSIVE ByteChain(_, _, _)
ByteChain(fat, g, seen) == IF g \notin 0..(NG - 1) \/ g \in Range(seen) THEN Append(seen, -1)
                           ELSE IF fat[g + 1] \in 192..255 THEN Append(seen, g)
                           ELSE IF fat[g + 1] \in 0..(NG - 1) THEN ByteChain(fat, fat[g + 1], Append(seen, g))
                           ELSE Append(Append(seen, g), -1)
FreeG(fat) == {g \in 0..(NG - 1) : fat[g + 1] = 255}
Adjacent(g, h) == h = g + 1 /\ g # 33                  \* physically consecutive on the disk (granule 33 is followed by the directory track)
\* class of a stored file: the unit of coverage and of known findings
ModClass(L) == LET m == L % GB IN IF L = 0 THEN "zero" ELSE IF m = 0 THEN "0" ELSE IF m \in 1..5 THEN "1..5" ELSE IF m \in 6..10 THEN "6..10" ELSE "other"
FileClass(f, ch) ==
  LET L == Len(Stream(f))
      n == IF ChainOK(ch) THEN Len(ch) ELSE 0
      adj == IF n < 2 THEN "single" ELSE IF \A i \in 1..(n - 1) : Adjacent(ch[i], ch[i + 1]) THEN "adjacent"
             ELSE IF Adjacent(ch[n - 1], ch[n]) THEN "last-adjacent" ELSE "last-nonadjacent"
  IN [kind |-> Kind(f), datalen |-> IF Len(f.data) = 0 THEN "0" ELSE IF Len(f.data) < 256 THEN "<256" ELSE IF Len(f.data) < GB THEN "<gran" ELSE ">=gran",
      mod |-> ModClass(L), ngran |-> IF n > 3 THEN 4 ELSE n, adj |-> adj,
      namelen |-> IF Len(f.name) <= 8 THEN "<=8" ELSE ">8", extlen |-> IF Len(f.ext) <= 3 THEN "<=3" ELSE ">3"]
NoClass == [kind |-> "", datalen |-> "", mod |-> "", ngran |-> 0, adj |-> "", namelen |-> "", extlen |-> ""]
NameEq(a, b) == UpSeq(Pad(IF Len(a) > 8 THEN SubSeq(a, 1, 8) ELSE a, 8)) = UpSeq(Pad(IF Len(b) > 8 THEN SubSeq(b, 1, 8) ELSE b, 8))
ExtEq(a, b) == UpSeq(Pad(IF Len(a) > 3 THEN SubSeq(a, 1, 3) ELSE a, 3)) = UpSeq(Pad(IF Len(b) > 3 THEN SubSeq(b, 1, 3) ELSE b, 3))
FileEq(a, b) == NameEq(a.name, b.name) /\ ExtEq(a.ext, b.ext) /\ a.type = b.type /\ a.dtype = b.dtype /\ a.data = b.data
                /\ (a.type = 2 => a.a1 = b.a1 /\ a.a2 = b.a2)

Item(c, fileno, cls, sym) == [clause |-> c, file |-> fileno, class |-> cls, symptom |-> sym]
\* apply a snapshot delta to the image state
Apply(st, sn) == [fat |-> sn.fat, dir |-> sn.dir,
                  gr |-> [g \in (DOMAIN st.gr) \cup {sn.grans[i].g : i \in DOMAIN sn.grans} |->
                            IF \E i \in DOMAIN sn.grans : sn.grans[i].g = g THEN sn.grans[CHOOSE i \in DOMAIN sn.grans : sn.grans[i].g = g].b ELSE st.gr[g]]]
StepEv(acc, ev) ==
  IF acc.stop THEN acc ELSE
  LET st == acc.st
      f == ev.file
      S == Stream(f)
      L == Len(S)
      free0 == FreeG(st.fat)
      used0 == UsedSlots(st.dir)
      mustfit == NeedMax(L) <= Cardinality(free0) /\ Cardinality(used0) < SLOTS
      cantfit == NeedMin(L) > Cardinality(free0) \/ Cardinality(used0) >= SLOTS
      fileno == Len(acc.files) + 1
  IN
  IF ev.result # "ok" THEN
     LET items == (IF mustfit THEN {Item("acct-should-fit", fileno, FileClass(f, <<>>), [why |-> ev.exc, n |-> Cardinality(free0)])} ELSE {})
                  \cup (IF ev.changed THEN {Item("fail-not-clean", fileno, FileClass(f, <<>>), [why |-> ev.exc, n |-> 0])} ELSE {})
     IN [acc EXCEPT !.verdicts = Append(@, SetToSeq(items)), !.stop = TRUE]
  ELSE
  LET sn == ev.snap
      st2 == Apply(st, sn)
      used1 == UsedSlots(st2.dir)
      newslots == used1 \ used0
      slotok == Cardinality(newslots) = 1 /\ used0 \subseteq used1
      k == IF newslots = {} THEN 0 ELSE CHOOSE x \in newslots : TRUE
      e == DirEnt(st2.dir, k)
      ch == IF newslots = {} THEN <<-1>> ELSE ByteChain(st2.fat, e.fg, <<>>)
      chok == ChainOK(ch)
      chg == IF chok THEN Range(ch) ELSE Range(ch) \ {-1}
      n == Len(ch)
      secs == IF chok THEN st2.fat[ch[n] + 1] - 192 ELSE -1
      cls == FileClass(f, ch)
      sym(w) == [why |-> w, n |-> IF chok THEN n ELSE 0]
      fatchanged == {g \in 0..(NG - 1) : st2.fat[g + 1] # st.fat[g + 1]}
      granchanged == {sn.grans[i].g : i \in DOMAIN sn.grans}
      dirchanged == {j \in 0..(SLOTS - 1) : SubSeq(st2.dir, 32 * j + 1, 32 * j + 32) # SubSeq(st.dir, 32 * j + 1, 32 * j + 32)}
      stored == IF chok /\ L <= n * GB THEN SubSeq(FlattenSeq([i \in 1..n |-> GranOf(st2, ch[i])]), 1, L) ELSE <<>>
      files2 == Append(acc.files, f)
      lst == ev.listed
      firstbad == IF ~lst.ok THEN fileno
                  ELSE LET m == IF Len(lst.files) < Len(files2) THEN Len(lst.files) ELSE Len(files2)
                           bad == {j \in 1..m : ~FileEq(lst.files[j], files2[j])}
                       IN IF bad # {} THEN CHOOSE j \in bad : \A i \in bad : j <= i ELSE IF Len(lst.files) # Len(files2) THEN m + 1 ELSE 0
      rtcls == IF firstbad = 0 \/ firstbad > Len(files2) THEN cls ELSE acc.classes[firstbad]
      items ==
           (IF ~slotok THEN {Item("slot", fileno, cls, sym(""))} ELSE {})
      \cup (IF slotok /\ ~chok THEN {Item("chain", fileno, cls, sym(""))} ELSE {})
      \cup (IF chok /\ secs \notin 0..9 THEN {Item("marker", fileno, cls, sym(""))} ELSE {})
      \cup (IF chok /\ ~(chg \subseteq free0) THEN {Item("took-used-granule", fileno, cls, sym(""))} ELSE {})
      \cup (IF chok /\ n \notin Needs(L) THEN {Item("ngran", fileno, cls, sym(""))} ELSE {})
      \cup (IF chok /\ secs \in 0..9 /\ ~(e.lastb \in 0..SB /\ Implied(n, secs, e.lastb) = L) THEN {Item("len", fileno, cls, sym(""))} ELSE {})
      \cup (IF chok /\ stored # S THEN {Item("stream", fileno, cls, sym(""))} ELSE {})
      \cup (IF slotok /\ ~(NameEq(e.name, f.name) /\ ExtEq(e.ext, f.ext) /\ e.type = f.type /\ e.dtype = f.dtype) THEN {Item("dirfields", fileno, cls, sym(""))} ELSE {})
      \cup (IF ~(fatchanged \subseteq chg) \/ ~(granchanged \subseteq chg) \/ ~(dirchanged \subseteq newslots) THEN {Item("old-disturbed", fileno, cls, sym(""))} ELSE {})
      \cup (IF sn.stray # <<>> THEN {Item("outside", fileno, cls, sym(""))} ELSE {})
      \cup (IF sn.size # 161280 THEN {Item("size", fileno, cls, sym(""))} ELSE {})
      \cup (IF cantfit THEN {Item("acct-should-fail", fileno, cls, sym(""))} ELSE {})
      \cup (IF firstbad # 0 THEN {Item("roundtrip", firstbad, IF firstbad = fileno THEN cls ELSE rtcls, sym(lst.exc))} ELSE {})
  IN [acc EXCEPT !.st = st2, !.files = files2, !.classes = Append(@, cls), !.verdicts = Append(@, SetToSeq(items))]
Init0 == [st |-> [fat |-> [k \in 1..FATLEN |-> 255], dir |-> [k \in 1..(32 * SLOTS) |-> 255], gr |-> <<>>],
          files |-> <<>>, classes |-> <<>>, verdicts |-> <<>>, stop |-> FALSE]
Judge(h) == LET r == FoldLeft(StepEv, Init0, h.events) IN [id |-> h.id, verdicts |-> r.verdicts, classes |-> r.classes]
VARIABLE x
Init == x = 0 /\ ndJsonSerialize(IOEnv.OUT_FILE, [k \in DOMAIN Batch |-> Judge(Batch[k])])
Next == UNCHANGED x
Spec == Init /\ [][Next]_x
=============================================================================
