SPECIFICATION Spec
CONSTANTS MaxN = 3
 Fillers = {0, 1, 70, 72, 118, 120, 122, 124, 126, 127, 128, 130}
 Consts <- ConstsC
INVARIANT WidthSafe
INVARIANT Decided
INVARIANT NoLivelock
CHECK_DEADLOCK FALSE
