---------------------------- MODULE MC_AsmSizing ----------------------------
EXTENDS AsmSizing
CONSTANTS MaxN, Fillers, Consts        \* Consts: the constants written with a label (label+c,PCR), 0 = plain label
ConstsC == {0, 4, -4, 126, -126, 200, -200}       \* (a cfg file cannot hold negative numbers: Consts <- ConstsC)
ConstsT == {0, 1, -1, 4, -4, 125, -125, 126, -126, 127, -127, 128, -128}       \* thorough tier (91 items, 753,571 programs: below TLC's 1,000,000-element limit for the set of initial states)
VARIABLES prog, st
vars == <<prog, st>>
Items(n) == {[k |-> "fix", sz |-> f, tgt |-> 0, base |-> 0, mx |-> f, c |-> 0] : f \in Fillers} \cup {[k |-> "fix", sz |-> 3, tgt |-> 0, base |-> 0, mx |-> 2, c |-> 0]}
            \cup [k : {"pcr"}, sz : {0}, tgt : 1..n, base : {2, 3}, mx : {0}, c : Consts]
Progs == UNION {{p \in [1..n -> Items(n)] : \E i \in 1..n : p[i].k = "pcr"} : n \in 1..MaxN}
Init == prog \in Progs /\ st = Init0(prog)
Next == st.phase # "done" /\ st' = Step(prog, st) /\ UNCHANGED prog
Spec == Init /\ [][Next]_vars /\ WF_vars(Next)
WidthSafe == WidthSafeSt(prog, st)
Decided == DecidedSt(prog, st)
NoLivelock == NoLivelockSt(prog, st)
Terminates == <>(st.phase = "done")
=============================================================================
