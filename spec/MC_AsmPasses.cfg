SPECIFICATION Spec
CONSTANTS
  N = 4
  Labels = {"A", "B"}
  Orgs = {0, 256, 65535}
INVARIANT StepsOK
INVARIANT EndToEnd
INVARIANT Perturbed
PROPERTY SizeMonotone
CHECK_DEADLOCK FALSE
